//! C17: PTH / SMX parsers against the shapes, cut points and hostile counts enumerated by TLC (LfsFiles).
use std::{
    alloc::{GlobalAlloc, Layout, System},
    collections::HashMap,
    io::{BufRead, Cursor, Write},
    sync::atomic::{AtomicUsize, Ordering},
};

use insim::core::binrw::{BinRead, BinWrite};
use insim_pth::Pth;
use insim_smx::Smx;
use rand::{rngs::StdRng, Rng, SeedableRng};
use serde_json::{json, Value};

pub struct Counting;
static CUR: AtomicUsize = AtomicUsize::new(0);
static PEAK: AtomicUsize = AtomicUsize::new(0);
static BIGGEST: AtomicUsize = AtomicUsize::new(0);

unsafe impl GlobalAlloc for Counting {
    unsafe fn alloc(&self, l: Layout) -> *mut u8 {
        let p = System.alloc(l);
        if !p.is_null() {
            let c = CUR.fetch_add(l.size(), Ordering::Relaxed) + l.size();
            let _ = PEAK.fetch_max(c, Ordering::Relaxed);
        }
        let _ = BIGGEST.fetch_max(l.size(), Ordering::Relaxed);
        p
    }
    unsafe fn dealloc(&self, p: *mut u8, l: Layout) {
        System.dealloc(p, l);
        let _ = CUR.fetch_sub(l.size(), Ordering::Relaxed);
    }
    unsafe fn realloc(&self, p: *mut u8, l: Layout, new: usize) -> *mut u8 {
        let q = System.realloc(p, l, new);
        if !q.is_null() {
            if new >= l.size() {
                let c = CUR.fetch_add(new - l.size(), Ordering::Relaxed) + (new - l.size());
                let _ = PEAK.fetch_max(c, Ordering::Relaxed);
            } else {
                let _ = CUR.fetch_sub(l.size() - new, Ordering::Relaxed);
            }
        }
        let _ = BIGGEST.fetch_max(new, Ordering::Relaxed);
        q
    }
}

/// run f, return (result, bytes allocated above the starting level at the peak, largest single request)
fn measured<T>(f: impl FnOnce() -> T) -> (Result<T, ()>, usize, usize) {
    let base = CUR.load(Ordering::Relaxed);
    PEAK.store(base, Ordering::Relaxed);
    BIGGEST.store(0, Ordering::Relaxed);
    let r = std::panic::catch_unwind(std::panic::AssertUnwindSafe(f)).map_err(|_| ());
    (r, PEAK.load(Ordering::Relaxed).saturating_sub(base), BIGGEST.load(Ordering::Relaxed))
}

fn payload(rng: &mut StdRng, n: usize) -> Vec<u8> {
    let mut v: Vec<u8> = (0..n).map(|_| rng.gen()).collect();
    // sprinkle IEEE special values (NaN, infinities, negative zero) over 4-byte slots
    let specials: [u32; 5] = [0x7fc0_0000, 0x7f80_0001, 0x7f80_0000, 0xff80_0000, 0x8000_0000];
    for i in (0..n.saturating_sub(3)).step_by(4) {
        if rng.gen_range(0..6) == 0 {
            v[i..i + 4].copy_from_slice(&specials[rng.gen_range(0..5)].to_le_bytes());
        }
    }
    v
}

fn hostile_value(how: &str, present: i64) -> i32 {
    match how {
        "neg1" => -1,
        "min" => i32::MIN,
        "max" => i32::MAX,
        "plus1" => (present + 1) as i32,
        _ => present as i32,
    }
}

fn pth_image(rng: &mut StdRng, n: usize, hostile: &Value) -> Vec<u8> {
    let mut b = b"LFSPTH".to_vec();
    // version and revision bytes: 0 / 0 in the files LFS ships; other values are carried through like any other byte
    if rng.gen_range(0..5) == 0 {
        b.push(rng.gen_range(0..3));
        b.push(rng.gen_range(0..3));
    } else {
        b.push(0);
        b.push(0);
    }
    let how = hostile["how"].as_str().unwrap_or("");
    let cnt = if hostile["pos"] == "nodes" { hostile_value(how, n as i64) } else { n as i32 };
    b.extend_from_slice(&cnt.to_le_bytes());
    b.extend_from_slice(&(rng.gen_range(0..1000) as i32).to_le_bytes());
    b.extend(payload(rng, 40 * n));
    b
}

fn smx_image(rng: &mut StdRng, shape: &Value, hostile: &Value) -> Vec<u8> {
    let pos = hostile["pos"].as_str().unwrap_or("none");
    let how = hostile["how"].as_str().unwrap_or("");
    let idx = hostile["idx"].as_u64().unwrap_or(0) as usize;
    let mut b = b"LFSSMX".to_vec();
    b.extend_from_slice(&[0, 6, 0, 2, 1, 1]);
    b.extend_from_slice(&[0, 0, 0, 0]);
    // the track name: empty, short, one byte short of the field, or filling all 32 bytes (no terminator)
    // (ASCII, or with Latin-1 bytes: the field is an LFS code page string)
    let full: &[u8; 32] = if rng.gen_bool(0.4) { b"Circuit d'\xe9t\xe9 - Stra\xdfe \xe0 gauche!" } else { b"Westhill International Reversed!" };
    let tlen = [9usize, 0, 31, 32, 1, 32, 13][rng.gen_range(0..7)];
    let mut track = full[..tlen].to_vec();
    track.resize(32, 0);
    b.extend(track);
    b.extend_from_slice(&[10, 20, 30]);
    b.extend_from_slice(&[0; 9]);
    let objs = shape["objs"].as_array().cloned().unwrap_or_default();
    let n = objs.len();
    let cnt = if pos == "objects" { hostile_value(how, n as i64) } else { n as i32 };
    b.extend_from_slice(&cnt.to_le_bytes());
    for (i, o) in objs.iter().enumerate() {
        let np = o["np"].as_u64().unwrap_or(0) as usize;
        let nt = o["nt"].as_u64().unwrap_or(0) as usize;
        b.extend(payload(rng, 16)); // centre + radius
        let cnp = if pos == "np" && idx == i + 1 { hostile_value(how, np as i64) } else { np as i32 };
        let cnt_ = if pos == "nt" && idx == i + 1 { hostile_value(how, nt as i64) } else { nt as i32 };
        b.extend_from_slice(&cnp.to_le_bytes());
        b.extend_from_slice(&cnt_.to_le_bytes());
        b.extend(payload(rng, 16 * np));
        for _ in 0..nt {
            b.extend(payload(rng, 6));
            b.extend_from_slice(&[0, 0]);
        }
    }
    let k = shape["cps"].as_u64().unwrap_or(0) as usize;
    let ck = if pos == "checkpoints" { hostile_value(how, k as i64) } else { k as i32 };
    b.extend_from_slice(&ck.to_le_bytes());
    b.extend(payload(rng, 4 * k));
    b
}

struct Parsed {
    verdict: &'static str,
    peak: usize,
    biggest: usize,
    rewrite_same_bytes: Option<bool>,
    reparse_equal: Option<bool>,
}

fn parse_pth(img: &[u8]) -> Parsed {
    let (r, peak, biggest) = measured(|| Pth::read(&mut Cursor::new(img)));
    match r {
        Err(()) => Parsed { verdict: "panic", peak, biggest, rewrite_same_bytes: None, reparse_equal: None },
        Ok(Err(_)) => Parsed { verdict: "err", peak, biggest, rewrite_same_bytes: None, reparse_equal: None },
        Ok(Ok(p)) => {
            let mut w = Cursor::new(Vec::new());
            let wrote = std::panic::catch_unwind(std::panic::AssertUnwindSafe(|| p.write(&mut w))).map(|r| r.is_ok()).unwrap_or(false);
            let out = w.into_inner();
            let same = wrote && out == img[..out.len().min(img.len())] && out.len() <= img.len();
            // structural equality is judged on the re-written images (NaN payloads are not equal to themselves as floats)
            let again = Pth::read(&mut Cursor::new(&out)).ok().map(|q| {
                let mut w2 = Cursor::new(Vec::new());
                q.write(&mut w2).is_ok() && w2.into_inner() == out && q.nodes.len() == p.nodes.len() && q.finish_line_node == p.finish_line_node
            });
            Parsed { verdict: "ok", peak, biggest, rewrite_same_bytes: Some(same), reparse_equal: Some(again.unwrap_or(false)) }
        },
    }
}

fn parse_smx(img: &[u8]) -> Parsed {
    let (r, peak, biggest) = measured(|| Smx::read(&mut Cursor::new(img)));
    match r {
        Err(()) => Parsed { verdict: "panic", peak, biggest, rewrite_same_bytes: None, reparse_equal: None },
        Ok(Err(_)) => Parsed { verdict: "err", peak, biggest, rewrite_same_bytes: None, reparse_equal: None },
        Ok(Ok(p)) => {
            let mut w = Cursor::new(Vec::new());
            let wrote = std::panic::catch_unwind(std::panic::AssertUnwindSafe(|| p.write(&mut w))).map(|r| r.is_ok()).unwrap_or(false);
            let out = w.into_inner();
            let same = wrote && out.len() <= img.len() && out == img[..out.len()];
            let again = Smx::read(&mut Cursor::new(&out)).ok().map(|q| format!("{:?}", q) == format!("{:?}", p));
            Parsed { verdict: "ok", peak, biggest, rewrite_same_bytes: Some(same), reparse_equal: Some(again.unwrap_or(false)) }
        },
    }
}

/// files-replay --in cases.ndjson --seed n : one JSON line per mismatch, then a summary
pub fn cmd_files_replay(a: &HashMap<String, String>) -> i32 {
    let path = a.get("in").expect("--in");
    let seed: u64 = a.get("seed").and_then(|s| s.parse().ok()).unwrap_or(1);
    let out = std::io::stdout();
    let mut out = out.lock();
    let (mut n, mut bad, mut files) = (0u64, 0u64, 0u64);
    let mut max_ratio = 0f64;
    let tmp = std::env::temp_dir().join(format!("lfsverif-{}", std::process::id()));
    let _ = std::fs::create_dir_all(&tmp);
    for (lineno, line) in std::io::BufReader::new(std::fs::File::open(path).expect("open")).lines().enumerate() {
        let v: Value = serde_json::from_str(&line.unwrap()).expect("json");
        let fmt = v["fmt"].as_str().unwrap_or("");
        let cut = v["cut"].as_u64().unwrap_or(0) as usize;
        let want = v["verdict"].as_str().unwrap_or("");
        let mut rng = StdRng::seed_from_u64(seed.wrapping_mul(7919) ^ (v["shape"].to_string().len() as u64 * 31 + v["total"].as_u64().unwrap_or(0)));
        let full = if fmt == "pth" { pth_image(&mut rng, v["shape"]["n"].as_u64().unwrap_or(0) as usize, &v["hostile"]) } else { smx_image(&mut rng, &v["shape"], &v["hostile"]) };
        if full.len() as u64 != v["total"].as_u64().unwrap_or(0) {
            let _ = writeln!(out, "{}", json!({"harness_error": format!("image length {} differs from the specification's total {}", full.len(), v["total"]), "case": v}));
            continue;
        }
        let img = &full[..cut.min(full.len())];
        if v["hostile"]["pos"] != "none" {
            // should the parser take the process down (an impossible allocation aborts), the orchestrator finds the case here
            let _ = writeln!(out, "CASE {}", v);
            let _ = out.flush();
        }
        let p = if fmt == "pth" { parse_pth(img) } else { parse_smx(img) };
        n += 1;
        let allowed = 65536 + 8 * img.len();
        max_ratio = max_ratio.max(p.peak as f64 / allowed as f64);
        let mut problems: Vec<String> = Vec::new();
        if p.verdict != want {
            problems.push(format!("parser verdict {} where the specification says {}", p.verdict, want));
        }
        if p.peak > allowed || p.biggest > allowed {
            problems.push(format!("allocated {} bytes at the peak (largest request {}) for an input of {} bytes", p.peak, p.biggest, img.len()));
        }
        if p.verdict == "ok" && want == "ok" {
            if p.rewrite_same_bytes != Some(true) {
                problems.push("writing the parsed file does not give back the bytes read".into());
            }
            if p.reparse_equal != Some(true) {
                problems.push("parsing the written file gives a different structure".into());
            }
        }
        // the format is defined relative to where the file begins, not to where the stream happens to stand: the same image
        // read from (and written to) a stream that stands 1, 2, 3 and 5 bytes further on gives the same result (sampled)
        if p.verdict == "ok" && want == "ok" && lineno % 5 == 0 {
            for k in [1usize, 2, 3, 5] {
                let mut shifted = vec![0xA5u8; k];
                shifted.extend_from_slice(img);
                let mut rd = Cursor::new(&shifted[..]);
                rd.set_position(k as u64);
                let ok = std::panic::catch_unwind(std::panic::AssertUnwindSafe(|| {
                    let mut wr = Cursor::new(vec![0xA5u8; k]);
                    wr.set_position(k as u64);
                    if fmt == "pth" {
                        match Pth::read(&mut rd) {
                            Ok(q) => q.write(&mut wr).is_ok() && wr.into_inner()[k..] == img[..],
                            Err(_) => false,
                        }
                    } else {
                        match Smx::read(&mut rd) {
                            Ok(q) => q.write(&mut wr).is_ok() && wr.into_inner()[k..] == img[..],
                            Err(_) => false,
                        }
                    }
                }))
                .unwrap_or(false);
                if !ok {
                    problems.push(format!("the same image read from / written to a stream standing at offset {k} does not give the same bytes"));
                    break;
                }
            }
        }
        // the file-based entry points agree with the in-memory parser (sampled)
        if lineno % 97 == 0 {
            let fp = tmp.join(format!("case{lineno}.{fmt}"));
            if std::fs::write(&fp, img).is_ok() {
                files += 1;
                let v2 = std::panic::catch_unwind(|| {
                    if fmt == "pth" {
                        let a = Pth::from_pathbuf(&fp).is_ok();
                        let b = std::fs::File::open(&fp).ok().map(|mut f| Pth::from_file(&mut f).is_ok()).unwrap_or(false);
                        (a, b)
                    } else {
                        let a = Smx::from_pathbuf(&fp).is_ok();
                        let b = std::fs::File::open(&fp).ok().map(|mut f| Smx::from_file(&mut f).is_ok()).unwrap_or(false);
                        (a, b)
                    }
                });
                match v2 {
                    Err(_) => problems.push("from_file / from_pathbuf panicked".into()),
                    Ok((a, b)) => {
                        if a != (want == "ok") || b != (want == "ok") {
                            problems.push(format!("from_pathbuf ok={a}, from_file ok={b} where the specification says {want}"));
                        }
                    },
                }
                let _ = std::fs::remove_file(&fp);
            }
        }
        if !problems.is_empty() {
            bad += 1;
            let _ = writeln!(out, "{}", json!({"mismatch": problems.join("; "), "case": v, "seed": seed}));
        }
    }
    let _ = std::fs::remove_dir_all(&tmp);
    // random / mutated images: totality and the allocation bound only
    let mut rng = StdRng::seed_from_u64(seed);
    let mut fuzz = 0u64;
    for i in 0..20000u32 {
        let shape = json!({"objs": [{"np": 2, "nt": 1}, {"np": 1, "nt": 2}], "cps": 2});
        let mut img = if i % 2 == 0 { pth_image(&mut rng, 3, &json!({"pos": "none"})) } else { smx_image(&mut rng, &shape, &json!({"pos": "none"})) };
        match rng.gen_range(0..4) {
            0 => {
                for _ in 0..rng.gen_range(1..4) {
                    let k = rng.gen_range(0..img.len());
                    img[k] = rng.gen();
                }
            },
            1 => {
                let k = rng.gen_range(6..img.len().min(140));
                let x: i32 = [i32::MAX, -1, 1 << 24, 1 << 30, 65536][rng.gen_range(0..5)];
                if k + 4 <= img.len() {
                    img[k..k + 4].copy_from_slice(&x.to_le_bytes());
                }
            },
            2 => img = (0..rng.gen_range(0..300)).map(|_| rng.gen()).collect(),
            _ => {
                let k = rng.gen_range(0..img.len());
                img.truncate(k);
            },
        }
        let p = if i % 2 == 0 { parse_pth(&img) } else { parse_smx(&img) };
        fuzz += 1;
        let allowed = 65536 + 8 * img.len();
        if p.verdict == "panic" || p.peak > allowed || p.biggest > allowed || (p.verdict == "ok" && p.reparse_equal != Some(true)) {
            bad += 1;
            let _ = writeln!(out, "{}", json!({"mismatch": format!("mutated image: verdict {} peak {} largest {} reparse {:?}", p.verdict, p.peak, p.biggest, p.reparse_equal),
                                               "case": {"fmt": if i % 2 == 0 { "pth" } else { "smx" }, "image": img}, "seed": seed}));
        }
    }
    let _ = writeln!(out, "{}", json!({"summary": {"cases": n, "mismatch": bad, "file_api_cases": files, "mutated": fuzz, "max_alloc_ratio": max_ratio}}));
    0
}
