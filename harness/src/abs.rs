//! Projection (`to_abs`) and construction (`from_abs`) between the real insim.rs
//! types and the abstract JSON records the TLA+ specifications talk about.
//!
//! Conventions (shared with spec/LfsWire.tla):
//!   u8 u16 i8 i16 usize      -> number
//!   u32 i32 f32(bits)        -> [lo16, hi16]   (TLC integers are 32-bit signed)
//!   bool                     -> true/false
//!   char                     -> code point number
//!   String                   -> [code point, ...]
//!   Duration                 -> {"ms":[l0,l1,l2,l3] 16-bit limbs of whole milliseconds, "ns": sub-millisecond nanoseconds}
//!   enum                     -> "VariantName" (the Rust variant name)
//!   bitflags                 -> ["CONST_NAME", ...] every named constant that is contained
//!   struct                   -> {"field": ...} keyed by the Rust field name
//!   unions                   -> {"k": "Variant", ...}
//! This file is hand written from the public fields only; if /repo renames a
//! public field the harness stops compiling (tool error, never a violation).
#![allow(unreachable_patterns)]

use std::{net::Ipv4Addr, time::Duration};

use insim::{
    core::{
        game_version::GameVersion, license::License, point::Point, track::Track, vehicle::Vehicle,
        wind::Wind,
    },
    identifiers::{ClickId, ConnectionId, PlayerId, RequestId},
    insim::*,
    relay::*,
    Packet,
};
use serde_json::{json, Map, Value};

pub type R<T> = Result<T, String>;

pub trait Abs: Sized {
    fn to_abs(&self) -> Value;
    fn from_abs(v: &Value) -> R<Self>;
}

fn num(v: &Value) -> R<i64> {
    v.as_i64().ok_or_else(|| format!("expected number, got {v}"))
}
pub fn field<'a>(v: &'a Value, name: &str) -> R<&'a Value> {
    v.get(name).ok_or_else(|| format!("missing field {name} in {v}"))
}
fn limbs32(v: &Value) -> R<u32> {
    let a = v.as_array().ok_or_else(|| format!("expected [lo,hi], got {v}"))?;
    if a.len() != 2 {
        return Err(format!("expected [lo,hi], got {v}"));
    }
    Ok(((num(&a[1])? as u32) << 16) | (num(&a[0])? as u32 & 0xffff))
}
fn to_limbs32(x: u32) -> Value {
    json!([x & 0xffff, x >> 16])
}

macro_rules! abs_small_int {
    ($($t:ty),*) => {$(
        impl Abs for $t {
            fn to_abs(&self) -> Value { json!(*self) }
            fn from_abs(v: &Value) -> R<Self> {
                let n = num(v)?;
                <$t>::try_from(n).map_err(|_| format!("{} out of range for {}", n, stringify!($t)))
            }
        }
    )*};
}
abs_small_int!(u8, u16, i8, i16, usize);

impl Abs for u32 {
    fn to_abs(&self) -> Value {
        to_limbs32(*self)
    }
    fn from_abs(v: &Value) -> R<Self> {
        limbs32(v)
    }
}
impl Abs for i32 {
    fn to_abs(&self) -> Value {
        to_limbs32(*self as u32)
    }
    fn from_abs(v: &Value) -> R<Self> {
        Ok(limbs32(v)? as i32)
    }
}
impl Abs for f32 {
    fn to_abs(&self) -> Value {
        to_limbs32(self.to_bits())
    }
    fn from_abs(v: &Value) -> R<Self> {
        Ok(f32::from_bits(limbs32(v)?))
    }
}
impl Abs for bool {
    fn to_abs(&self) -> Value {
        json!(*self)
    }
    fn from_abs(v: &Value) -> R<Self> {
        v.as_bool().ok_or_else(|| format!("expected bool, got {v}"))
    }
}
impl Abs for char {
    fn to_abs(&self) -> Value {
        json!(*self as u32)
    }
    fn from_abs(v: &Value) -> R<Self> {
        char::from_u32(num(v)? as u32).ok_or_else(|| "bad code point".to_string())
    }
}
impl Abs for String {
    fn to_abs(&self) -> Value {
        Value::Array(self.chars().map(|c| json!(c as u32)).collect())
    }
    fn from_abs(v: &Value) -> R<Self> {
        let a = v.as_array().ok_or_else(|| format!("expected code point list, got {v}"))?;
        a.iter().map(char::from_abs).collect()
    }
}
pub fn cps(s: &str) -> Value {
    s.to_string().to_abs()
}
impl Abs for Duration {
    fn to_abs(&self) -> Value {
        let ms = self.as_millis().min(u64::MAX as u128) as u64;
        json!({"ms": [ms & 0xffff, (ms >> 16) & 0xffff, (ms >> 32) & 0xffff, (ms >> 48) & 0xffff],
               "ns": self.subsec_nanos() % 1_000_000})
    }
    fn from_abs(v: &Value) -> R<Self> {
        // 16-bit limbs, least significant first; a fifth limb reaches beyond 2^64 ms (Duration holds up to 2^64 seconds)
        let a = field(v, "ms")?.as_array().ok_or("ms limbs")?;
        let mut ms: u128 = 0;
        for (i, l) in a.iter().enumerate().take(5) {
            ms |= (num(l)? as u128 & 0xffff) << (16 * i);
        }
        let ns = num(field(v, "ns")?)? as u64;
        let secs = u64::try_from(ms / 1000).map_err(|_| "duration too large".to_string())?;
        Ok(Duration::new(secs, (ms % 1000) as u32 * 1_000_000) + Duration::from_nanos(ns))
    }
}
impl<T: Abs> Abs for Vec<T> {
    fn to_abs(&self) -> Value {
        Value::Array(self.iter().map(|x| x.to_abs()).collect())
    }
    fn from_abs(v: &Value) -> R<Self> {
        v.as_array().ok_or_else(|| format!("expected list, got {v}"))?.iter().map(T::from_abs).collect()
    }
}
impl<T: Abs, const N: usize> Abs for [T; N] {
    fn to_abs(&self) -> Value {
        Value::Array(self.iter().map(|x| x.to_abs()).collect())
    }
    fn from_abs(v: &Value) -> R<Self> {
        let xs: Vec<T> = Vec::<T>::from_abs(v)?;
        xs.try_into().map_err(|_| format!("expected {} elements", N))
    }
}
impl<T: Abs> Abs for Option<T> {
    fn to_abs(&self) -> Value {
        match self {
            None => Value::Null,
            Some(x) => x.to_abs(),
        }
    }
    fn from_abs(v: &Value) -> R<Self> {
        if v.is_null() {
            Ok(None)
        } else {
            Ok(Some(T::from_abs(v)?))
        }
    }
}

macro_rules! abs_newtype {
    ($($t:ident),*) => {$(
        impl Abs for $t {
            fn to_abs(&self) -> Value { json!(self.0) }
            fn from_abs(v: &Value) -> R<Self> { Ok($t(u8::from_abs(v)?)) }
        }
    )*};
}
abs_newtype!(RequestId, ConnectionId, PlayerId, ClickId);

macro_rules! abs_struct {
    ($t:ty { $($f:ident),* $(,)? }) => {
        impl Abs for $t {
            fn to_abs(&self) -> Value {
                let mut m = Map::new();
                $( let _ = m.insert(stringify!($f).to_string(), self.$f.to_abs()); )*
                Value::Object(m)
            }
            fn from_abs(v: &Value) -> R<Self> {
                Ok(Self { $( $f: Abs::from_abs(field(v, stringify!($f))?).map_err(|e| format!("{}.{}: {}", stringify!($t), stringify!($f), e))? ),* })
            }
        }
    };
}
macro_rules! abs_enum {
    ($t:ty { $($v:ident),* $(,)? }) => {
        impl Abs for $t {
            fn to_abs(&self) -> Value {
                match self { $( <$t>::$v => json!(stringify!($v)), )* _ => json!("?") }
            }
            fn from_abs(v: &Value) -> R<Self> {
                match v.as_str() {
                    $( Some(stringify!($v)) => Ok(<$t>::$v), )*
                    _ => Err(format!("unknown {} variant {}", stringify!($t), v)),
                }
            }
        }
    };
}
macro_rules! abs_flags {
    ($t:ty { $($c:ident),* $(,)? }) => {
        impl Abs for $t {
            fn to_abs(&self) -> Value {
                let mut names: Vec<Value> = Vec::new();
                $( if <$t>::$c.bits() != 0 && self.contains(<$t>::$c) { names.push(json!(stringify!($c))); } )*
                Value::Array(names)
            }
            fn from_abs(v: &Value) -> R<Self> {
                let mut f = <$t>::empty();
                for n in v.as_array().ok_or_else(|| format!("expected flag name list, got {v}"))? {
                    match n.as_str() {
                        $( Some(stringify!($c)) => f |= <$t>::$c, )*
                        _ => return Err(format!("unknown {} flag {}", stringify!($t), n)),
                    }
                }
                Ok(f)
            }
        }
    };
}

// ---------------------------------------------------------------- core types
abs_enum!(Wind { None, Weak, Strong });
abs_enum!(License { Demo, S1, S2, S3 });

impl<T: Abs + insim::core::point::Pointable> Abs for Point<T> {
    fn to_abs(&self) -> Value {
        json!({"x": self.x.to_abs(), "y": self.y.to_abs(), "z": self.z.to_abs()})
    }
    fn from_abs(v: &Value) -> R<Self> {
        Ok(Point {
            x: T::from_abs(field(v, "x")?)?,
            y: T::from_abs(field(v, "y")?)?,
            z: T::from_abs(field(v, "z")?)?,
        })
    }
}

pub const STD_VEHICLES: [(&str, Vehicle); 20] = [
    ("XFG", Vehicle::Xfg),
    ("XRG", Vehicle::Xrg),
    ("FBM", Vehicle::Fbm),
    ("XRT", Vehicle::Xrt),
    ("RB4", Vehicle::Rb4),
    ("FXO", Vehicle::Fxo),
    ("LX4", Vehicle::Lx4),
    ("LX6", Vehicle::Lx6),
    ("MRT", Vehicle::Mrt),
    ("UF1", Vehicle::Uf1),
    ("RAC", Vehicle::Rac),
    ("FZ5", Vehicle::Fz5),
    ("FOX", Vehicle::Fox),
    ("XFR", Vehicle::Xfr),
    ("UFR", Vehicle::Ufr),
    ("FO8", Vehicle::Fo8),
    ("FXR", Vehicle::Fxr),
    ("XRR", Vehicle::Xrr),
    ("FZR", Vehicle::Fzr),
    ("BF1", Vehicle::Bf1),
];

impl Abs for Vehicle {
    fn to_abs(&self) -> Value {
        match self {
            Vehicle::Mod(id) => json!({"k": "mod", "name": [], "id": to_limbs32(*id)}),
            Vehicle::Unknown => json!({"k": "unknown", "name": [], "id": [0, 0]}),
            other => {
                for (n, v) in STD_VEHICLES.iter() {
                    if v == other {
                        return json!({"k": "std", "name": cps(n), "id": [0, 0]});
                    }
                }
                json!({"k": "?", "name": [], "id": [0, 0]})
            },
        }
    }
    fn from_abs(v: &Value) -> R<Self> {
        match field(v, "k")?.as_str() {
            Some("mod") => Ok(Vehicle::Mod(limbs32(field(v, "id")?)?)),
            Some("unknown") => Ok(Vehicle::Unknown),
            Some("std") => {
                let name = String::from_abs(field(v, "name")?)?;
                STD_VEHICLES
                    .iter()
                    .find(|(n, _)| *n == name)
                    .map(|(_, v)| v.clone())
                    .ok_or_else(|| format!("no built-in vehicle {name}"))
            },
            _ => Err(format!("bad vehicle {v}")),
        }
    }
}

/// All track values the real reader accepts within the shaped space, keyed by the
/// upper-cased Rust variant name (= the short code InSim uses).
pub fn track_table() -> &'static Vec<(String, Track)> {
    use std::sync::OnceLock;
    static T: OnceLock<Vec<(String, Track)>> = OnceLock::new();
    T.get_or_init(|| {
        use insim::core::binrw::BinRead;
        let mut out: Vec<(String, Track)> = Vec::new();
        let up = b"ABCDEFGHIJKLMNOPQRSTUVWXYZ";
        let dg = b"0123456789";
        let mut cands: Vec<[u8; 6]> = Vec::new();
        for a in up {
            for b in up {
                for d1 in dg {
                    cands.push([*a, *b, *d1, 0, 0, 0]);
                    for l in up {
                        cands.push([*a, *b, *d1, *l, 0, 0]);
                    }
                    for d2 in dg {
                        cands.push([*a, *b, *d1, *d2, 0, 0]);
                        for l in up {
                            cands.push([*a, *b, *d1, *d2, *l, 0]);
                        }
                    }
                }
            }
        }
        for c in cands {
            let mut cur = std::io::Cursor::new(&c[..]);
            if let Ok(Ok(t)) = std::panic::catch_unwind(move || Track::read_le(&mut cur)) {
                let key = format!("{:?}", t).to_uppercase();
                if !out.iter().any(|(k, _)| *k == key) {
                    out.push((key, t));
                }
            }
        }
        out
    })
}
impl Abs for Track {
    fn to_abs(&self) -> Value {
        cps(&format!("{:?}", self).to_uppercase())
    }
    fn from_abs(v: &Value) -> R<Self> {
        let name = String::from_abs(v)?;
        track_table()
            .iter()
            .find(|(k, _)| *k == name)
            .map(|(_, t)| t.clone())
            .ok_or_else(|| format!("no track {name}"))
    }
}

/// In wire records the game version is carried as its printed text.
impl Abs for GameVersion {
    fn to_abs(&self) -> Value {
        cps(&self.to_string())
    }
    fn from_abs(v: &Value) -> R<Self> {
        String::from_abs(v)?.parse::<GameVersion>().map_err(|e| format!("{e}"))
    }
}
/// Carried in wire order (the byte-order interpretation of IPAddress is outside the oracle).
impl Abs for Ipv4Addr {
    fn to_abs(&self) -> Value {
        json!(u32::from(*self).to_le_bytes())
    }
    fn from_abs(v: &Value) -> R<Self> {
        let b: [u8; 4] = <[u8; 4]>::from_abs(v)?;
        Ok(Ipv4Addr::from(u32::from_le_bytes(b)))
    }
}

// ---------------------------------------------------------------- enums
abs_enum!(TinyType { None, Ver, Close, Ping, Reply, Vtc, Scp, Sst, Gth, Mpe, Ism, Ren, Clr, Ncn, Npl, Res, Nlp, Mci, Reo, Rst, Axi, Axc, Rip, Nci, Alc, Axm, Slc, Mal, Plh, Ipb });
abs_enum!(RaceInProgress { No, Racing, Qualifying });
abs_enum!(MsoUserType { System, User, Prefix, O });
abs_enum!(VtnAction { None, End, Restart, Qualify });
abs_enum!(CnlReason { Disco, Timeout, LostConn, Kicked, Banned, Security, Cpw, Oos, Joos, Hack });
abs_enum!(TyreCompound { R1, R2, R3, R4, RoadSuper, RoadNormal, Hybrid, Knobbly, NoChange });
abs_enum!(PitLaneFact { Exit, Enter, NoPurpose, Dt, Sg });
abs_enum!(CameraView { Follow, Heli, Cam, Driver, Custom, Another });
abs_enum!(PenaltyInfo { None, Dt, DtValid, Sg, SgValid, Seconds30, Seconds45 });
abs_enum!(PenaltyReason { Unknown, Admin, WrongWay, FalseStart, Speeding, StopShort, StopLate });
abs_enum!(FlgType { Blue, Yellow });
abs_enum!(SoundType { Silent, Message, SysMessage, InvalidKey, Error });
abs_enum!(BfnType { DelBtn, Clear, UserClear, BtnRequest });
abs_enum!(RipError { Ok, Already, Dedicated, WrongMode, NotReplay, Corrupted, NotFound, Unloadable, DestOOB, Unknown, User, OOS });
abs_enum!(SshError { Ok, Dedicated, Corrupted, NoSave });
abs_enum!(Hlvc { Ground, Wall, Speeding, OutOfBounds });
abs_enum!(PmoAction { LoadingFile, AddObjects, DelObjects, ClearAll, TinyAxm, TtcSel, Selection, Position, GetZ });
abs_enum!(AcrResult { Processed, Rejected, UnknownCommand });
abs_enum!(Language { English, Deutsch, Portuguese, French, Suomi, Norsk, Nederlands, Catalan, Turkish, Castellano, Italiano, Dansk, Czech, Russian, Estonian, Serbian, Greek, Polski, Croatian, Hungarian, Brazilian, Swedish, Slovak, Galego, Slovenski, Belarussian, Latvian, Lithuanian, TraditionalChinese, SimplifiedChinese, Japanese, Korean, Bulgarian, Latino, Ukrainian, Indonesian, Romanian });
abs_enum!(JrrAction { Reject, Spawn, Reset, ResetNoRepair });
abs_enum!(UcoAction { CircleEnter, CircleLeave, CpFwd, CpRev });
abs_enum!(OcoAction { LightsReset, LightsSet, LightsUnset });
abs_enum!(OcoIndex { AxoStartLights1, AxoStartLights2, AxoStartLights3, MainLights });
abs_enum!(TtcType { Sel, SelStart, SelStop });
abs_enum!(CscAction { Stop, Start });
abs_enum!(CimSubModeNormal { Normal, WheelTemps, WheelDamage, LiveSettings, PitInstructions });
abs_enum!(CimSubModeGarage { Info, Colours, BrakeTC, Susp, Steer, Drive, Tyres, Aero, Pass });
abs_enum!(CimSubModeShiftU { Plain, Buttons, Edit });
abs_enum!(RelayErrorKind { None, InvalidPacketLength, InvalidPacketType, InvalidHostname, BadAdminPassword, BadSpectatorPassword, MissingSpectatorPassword });

// ---------------------------------------------------------------- flags
abs_flags!(IsiFlags { LOCAL, MSO_COLS, NLP, MCI, CON, OBH, HLV, AXM_LOAD, AXM_EDIT, REQ_JOIN });
abs_flags!(StaFlags { GAME, REPLAY, PAUSE, SHIFTU, DIALOG, SHIFTU_FOLLOW, SHIFTU_NO_OPT, SHOW_2D, FRONT_END, MULTI, MPSPEEDUP, WINDOWED, SOUND_MUTE, VIEW_OVERRIDE, VISIBLE, TEXT_ENTRY });
abs_flags!(SchFlags { SHIFT, CTRL });
abs_flags!(RaceFlags { CAN_VOTE, CAN_SELECT, MID_RACE, MUST_PIT, CAN_RESET, FCV, CRUISE });
abs_flags!(NcnFlags { REMOTE });
abs_flags!(PlayerFlags { LEFTSIDE, AUTOGEARS, SHIFTER, HELP_B, AXIS_CLUTCH, INPITS, AUTOCLUTCH, MOUSE, KB_NO_HELP, KB_STABILISED, CUSTOM_VIEW });
abs_flags!(SetFlags { SYMM_WHEELS, TC_ENABLE, ABS_ENABLE });
abs_flags!(PlayerType { FEMALE, AI, REMOTE });
abs_flags!(Passengers { FRONT_MALE, FRONT_FEMALE, REAR_LEFT_MALE, REAR_LEFT_FEMALE, REAR_MIDDLE_MALE, REAR_MIDDLE_FEMALE, REAR_RIGHT_MALE, REAR_RIGHT_FEMALE });
abs_flags!(PitStopWorkFlags { NOTHING, STOP, FR_DAM, FR_WHL, PSE_LE_FR_DAM, PSE_LE_FR_WHL, PSE_RI_FR_DAM, PSE_RI_FR_WHL, PSE_RE_DAM, PSE_RE_WHL, PSE_LE_RE_DAM, PSE_LE_RE_WHL, PSE_RI_RE_DAM, PSE_RI_RE_WHL, PSE_BODY_MINOR, PSE_BODY_MAJOR, PSE_SETUP, PSE_REFUEL });
abs_flags!(RaceConfirmFlags { MENTIONED, CONFIRMED, PENALTY_DT, PENALTY_SG, PENALTY_30, PENALTY_45, DID_NOT_PIT });
abs_flags!(CompCarInfo { BLUE, YELLOW, LAG, FIRST, LAST });
abs_flags!(BtnInst { ALWAYSON });
abs_flags!(BtnStyleFlags { C1, C2, C4, CLICK, LIGHT, DARK, LEFT, RIGHT });
abs_flags!(BtnClickFlags { LMB, RMB, CTRL, SHIFT });
abs_flags!(RipOptions { LOOP, SKINS, FULL_PHYS });
abs_flags!(ObhFlags { LAYOUT, CAN_MOVE, WAS_MOVING, ON_SPOT });
abs_flags!(PmoFlags { FILE_END, MOVE_MODIFY, SELECTION_REAL, AVOID_CHECK });
abs_flags!(OcoLights { RED1, RED2, RED3, GREEN });
abs_flags!(HostInfoFlags { SPECTATE_PASSWORD_REQUIRED, LICENSED, S1, S2, FIRST, LAST });
abs_flags!(LcsFlags { SET_SIGNALS, SET_FLASH, SET_HEADLIGHTS, SET_HORN, SET_SIREN, SIGNAL_OFF, SIGNAL_LEFT, SIGNAL_RIGHT, SIGNAL_HAZARD, FLASH_OFF, FLASH_ON, HEADLIGHTS_OFF, HEADLIGHTS_ON, HORN_OFF, HORN_1, HORN_2, HORN_3, HORN_4, HORN_5, SIREN_OFF, SIREN_FAST, SIREN_SLOW });
abs_flags!(LclFlags { SET_SIGNALS, SET_LIGHTS, SET_FOG_REAR, SET_FOG_FRONT, SET_EXTRA, SIGNAL_OFF, SIGNAL_LEFT, SIGNAL_RIGHT, SIGNAL_HAZARD, LIGHT_OFF, LIGHT_SIDE, LIGHT_LOW, LIGHT_HIGH, FOG_REAR_OFF, FOG_REAR, FOG_FRONT_OFF, FOG_FRONT, EXTRA_OFF, EXTRA });

// PlayerHandicapFlags is public but not re-exported by the crate, so it cannot be named:
// reach its constants through the bitflags::Flags trait on the field.
fn flag_names<F: bitflags::Flags>(f: &F) -> Value {
    let mut names = Vec::new();
    for fl in F::FLAGS.iter() {
        if !fl.name().is_empty() && f.contains(F::from_bits_retain(fl.value().bits())) && fl.value().bits() != F::empty().bits() {
            names.push(json!(fl.name()));
        }
    }
    Value::Array(names)
}
fn flags_from_names<F: bitflags::Flags>(_witness: &F, v: &Value) -> R<F> {
    let mut out = F::empty();
    for n in v.as_array().ok_or("flag list")? {
        let name = n.as_str().ok_or("flag name")?;
        let fl = F::FLAGS.iter().find(|fl| fl.name() == name).ok_or_else(|| format!("unknown flag {name}"))?;
        out.insert(F::from_bits_retain(fl.value().bits()));
    }
    Ok(out)
}

// ---------------------------------------------------------------- unions and irregular types
impl Abs for Fuel {
    fn to_abs(&self) -> Value {
        match self {
            Fuel::Percentage(n) => json!({"k": "Percentage", "v": n}),
            Fuel::No => json!({"k": "No", "v": 0}),
            _ => json!({"k": "?", "v": 0}),
        }
    }
    fn from_abs(v: &Value) -> R<Self> {
        match field(v, "k")?.as_str() {
            Some("Percentage") => Ok(Fuel::Percentage(u8::from_abs(field(v, "v")?)?)),
            Some("No") => Ok(Fuel::No),
            _ => Err(format!("bad fuel {v}")),
        }
    }
}
impl Abs for Fuel200 {
    fn to_abs(&self) -> Value {
        match self {
            Fuel200::Percentage(n) => json!({"k": "Percentage", "v": n}),
            Fuel200::No => json!({"k": "No", "v": 0}),
            _ => json!({"k": "?", "v": 0}),
        }
    }
    fn from_abs(v: &Value) -> R<Self> {
        match field(v, "k")?.as_str() {
            Some("Percentage") => Ok(Fuel200::Percentage(u8::from_abs(field(v, "v")?)?)),
            Some("No") => Ok(Fuel200::No),
            _ => Err(format!("bad fuel200 {v}")),
        }
    }
}
impl Abs for RaceLaps {
    fn to_abs(&self) -> Value {
        match self {
            RaceLaps::Practice => json!({"k": "Practice", "v": 0}),
            RaceLaps::Laps(n) => json!({"k": "Laps", "v": n}),
            RaceLaps::Hours(n) => json!({"k": "Hours", "v": n}),
            _ => json!({"k": "?", "v": 0}),
        }
    }
    fn from_abs(v: &Value) -> R<Self> {
        let n = usize::from_abs(field(v, "v")?)?;
        match field(v, "k")?.as_str() {
            Some("Practice") => Ok(RaceLaps::Practice),
            Some("Laps") => Ok(RaceLaps::Laps(n)),
            Some("Hours") => Ok(RaceLaps::Hours(n)),
            _ => Err(format!("bad racelaps {v}")),
        }
    }
}
impl Abs for PlcAllowedCarsSet {
    fn to_abs(&self) -> Value {
        // in table order, so the rendering is canonical
        let mut out = Vec::new();
        for (n, v) in STD_VEHICLES.iter() {
            if self.contains(v) {
                out.push(json!(n));
            }
        }
        Value::Array(out)
    }
    fn from_abs(v: &Value) -> R<Self> {
        let mut s = PlcAllowedCarsSet::default();
        for n in v.as_array().ok_or("expected car list")? {
            let name = n.as_str().ok_or("car name")?;
            let veh = STD_VEHICLES.iter().find(|(k, _)| *k == name).ok_or_else(|| format!("no car {name}"))?;
            let _ = s.insert(veh.1.clone()).map_err(|e| format!("{e}"))?;
        }
        Ok(s)
    }
}
impl Abs for SmallType {
    fn to_abs(&self) -> Value {
        let z = || json!(0);
        let (k, d, a, b, f, c): (&str, Value, Value, Value, Value, Value) = match self {
            SmallType::None => ("None", z(), z(), z(), z(), z()),
            SmallType::Ssp(d) => ("Ssp", d.to_abs(), z(), z(), z(), z()),
            SmallType::Ssg(d) => ("Ssg", d.to_abs(), z(), z(), z(), z()),
            SmallType::Vta(a) => ("Vta", z(), a.to_abs(), z(), z(), z()),
            SmallType::Tms(b) => ("Tms", z(), z(), b.to_abs(), z(), z()),
            SmallType::Stp(d) => ("Stp", d.to_abs(), z(), z(), z(), z()),
            SmallType::Rtp(d) => ("Rtp", d.to_abs(), z(), z(), z(), z()),
            SmallType::Nli(d) => ("Nli", d.to_abs(), z(), z(), z(), z()),
            SmallType::Alc(c) => ("Alc", z(), z(), z(), z(), c.to_abs()),
            SmallType::Lcs(f) => ("Lcs", z(), z(), z(), f.to_abs(), z()),
            SmallType::Lcl(f) => ("Lcl", z(), z(), z(), f.to_abs(), z()),
            _ => ("?", z(), z(), z(), z(), z()),
        };
        json!({"k": k, "dur": d, "vta": a, "tms": b, "flags": f, "cars": c})
    }
    fn from_abs(v: &Value) -> R<Self> {
        let dur = || Duration::from_abs(field(v, "dur")?);
        Ok(match field(v, "k")?.as_str() {
            Some("None") => SmallType::None,
            Some("Ssp") => SmallType::Ssp(dur()?),
            Some("Ssg") => SmallType::Ssg(dur()?),
            Some("Vta") => SmallType::Vta(VtnAction::from_abs(field(v, "vta")?)?),
            Some("Tms") => SmallType::Tms(bool::from_abs(field(v, "tms")?)?),
            Some("Stp") => SmallType::Stp(dur()?),
            Some("Rtp") => SmallType::Rtp(dur()?),
            Some("Nli") => SmallType::Nli(dur()?),
            Some("Alc") => SmallType::Alc(PlcAllowedCarsSet::from_abs(field(v, "cars")?)?),
            Some("Lcs") => SmallType::Lcs(LcsFlags::from_abs(field(v, "flags")?)?),
            Some("Lcl") => SmallType::Lcl(LclFlags::from_abs(field(v, "flags")?)?),
            _ => return Err(format!("bad small subtype {v}")),
        })
    }
}
impl Abs for CimMode {
    fn to_abs(&self) -> Value {
        match self {
            CimMode::Normal(s) => json!({"k": "Normal", "sub": s.to_abs(), "seltype": 0}),
            CimMode::Options => json!({"k": "Options", "sub": "", "seltype": 0}),
            CimMode::HostOptions => json!({"k": "HostOptions", "sub": "", "seltype": 0}),
            CimMode::Garage(s) => json!({"k": "Garage", "sub": s.to_abs(), "seltype": 0}),
            CimMode::CarSelect => json!({"k": "CarSelect", "sub": "", "seltype": 0}),
            CimMode::TrackSelect => json!({"k": "TrackSelect", "sub": "", "seltype": 0}),
            CimMode::ShiftU { submode, seltype } => json!({"k": "ShiftU", "sub": submode.to_abs(), "seltype": seltype}),
            _ => json!({"k": "?", "sub": "", "seltype": 0}),
        }
    }
    fn from_abs(v: &Value) -> R<Self> {
        let sub = field(v, "sub")?;
        Ok(match field(v, "k")?.as_str() {
            Some("Normal") => CimMode::Normal(CimSubModeNormal::from_abs(sub)?),
            Some("Options") => CimMode::Options,
            Some("HostOptions") => CimMode::HostOptions,
            Some("Garage") => CimMode::Garage(CimSubModeGarage::from_abs(sub)?),
            Some("CarSelect") => CimMode::CarSelect,
            Some("TrackSelect") => CimMode::TrackSelect,
            Some("ShiftU") => CimMode::ShiftU {
                submode: CimSubModeShiftU::from_abs(sub)?,
                seltype: u8::from_abs(field(v, "seltype")?)?,
            },
            _ => return Err(format!("bad cim mode {v}")),
        })
    }
}
impl Abs for Mal {
    fn to_abs(&self) -> Value {
        let mods: Vec<Value> = self
            .iter()
            .map(|v| match v {
                Vehicle::Mod(id) => to_limbs32(*id),
                _ => json!("not-a-mod"),
            })
            .collect();
        json!({"reqi": self.reqi.to_abs(), "ucid": self.ucid.to_abs(), "allowed_mods": mods})
    }
    fn from_abs(v: &Value) -> R<Self> {
        let mut m = Mal::default();
        m.reqi = RequestId::from_abs(field(v, "reqi")?)?;
        m.ucid = ConnectionId::from_abs(field(v, "ucid")?)?;
        for id in field(v, "allowed_mods")?.as_array().ok_or("allowed_mods")? {
            let _ = m.insert(Vehicle::Mod(limbs32(id)?)).map_err(|e| format!("{e}"))?;
        }
        Ok(m)
    }
}
impl Abs for Ipb {
    fn to_abs(&self) -> Value {
        let ips: Vec<Value> = self.iter().map(|ip| ip.to_abs()).collect();
        json!({"reqi": self.reqi.to_abs(), "banips": ips})
    }
    fn from_abs(v: &Value) -> R<Self> {
        let mut m = Ipb::default();
        m.reqi = RequestId::from_abs(field(v, "reqi")?)?;
        for ip in field(v, "banips")?.as_array().ok_or("banips")? {
            let _ = m.insert(Ipv4Addr::from_abs(ip)?);
        }
        Ok(m)
    }
}
impl Abs for PlayerHandicap {
    fn to_abs(&self) -> Value {
        json!({"plid": self.plid.to_abs(), "flags": flag_names(&self.flags), "h_mass": self.h_mass, "h_tres": self.h_tres})
    }
    fn from_abs(v: &Value) -> R<Self> {
        let mut p = PlayerHandicap::default();
        p.plid = PlayerId::from_abs(field(v, "plid")?)?;
        p.h_mass = u8::from_abs(field(v, "h_mass")?)?;
        p.h_tres = u8::from_abs(field(v, "h_tres")?)?;
        p.flags = flags_from_names(&p.flags, field(v, "flags")?)?;
        Ok(p)
    }
}

// ---------------------------------------------------------------- structs
abs_struct!(Isi { reqi, udpport, flags, version, prefix, interval, admin, iname });
abs_struct!(Ver { reqi, version, product, insimver });
abs_struct!(Tiny { reqi, subt });
abs_struct!(Small { reqi, subt });
abs_struct!(Sta { reqi, replayspeed, flags, ingamecam, viewplid, nump, numconns, numfinished, raceinprog, qualmins, racelaps, serverstatus, track, weather, wind });
abs_struct!(Sch { reqi, charb, flags });
abs_struct!(Sfp { reqi, flag, onoff });
abs_struct!(Scc { reqi, viewplid, ingamecam });
abs_struct!(Cpp { reqi, pos, h, p, r, viewplid, ingamecam, fov, time, flags });
abs_struct!(Ism { reqi, host, hname });
abs_struct!(Mso { reqi, ucid, plid, usertype, textstart, msg });
abs_struct!(Iii { reqi, ucid, plid, msg });
abs_struct!(Mst { reqi, msg });
abs_struct!(Mtc { reqi, sound, ucid, plid, text });
abs_struct!(Mod { reqi, bit16, rr, width, height });
abs_struct!(Vtn { reqi, ucid, action });
abs_struct!(Rst { reqi, racelaps, qualmins, nump, timing, track, weather, wind, flags, numnodes, finish, split1, split2, split3 });
abs_struct!(Ncn { reqi, ucid, uname, pname, admin, total, flags });
abs_struct!(Cnl { reqi, ucid, reason, total });
abs_struct!(Cpr { reqi, ucid, pname, plate });
abs_struct!(Npl { reqi, plid, ucid, ptype, flags, pname, plate, cname, sname, tyres, h_mass, h_tres, model, pass, rwadj, fwadj, setf, nump, config, fuel });
abs_struct!(Plp { reqi, plid });
abs_struct!(Pll { reqi, plid });
abs_struct!(Lap { reqi, plid, ltime, etime, lapsdone, flags, penalty, numstops, fuel200 });
abs_struct!(Spx { reqi, plid, stime, etime, split, penalty, numstops, fuel200 });
abs_struct!(Pit { reqi, plid, lapsdone, flags, fueladd, penalty, numstops, tyres, work });
abs_struct!(Psf { reqi, plid, stime });
abs_struct!(Pla { reqi, plid, fact });
abs_struct!(Cch { reqi, plid, camera });
abs_struct!(Pen { reqi, plid, oldpen, newpen, reason });
abs_struct!(Toc { reqi, plid, olducid, newucid });
abs_struct!(Flg { reqi, plid, offon, flag, carbehind });
abs_struct!(Pfl { reqi, plid, flags });
abs_struct!(Fin { reqi, plid, ttime, btime, numstops, confirm, lapsdone, flags });
abs_struct!(Res { reqi, plid, uname, pname, plate, cname, ttime, btime, numstops, confirm, lapsdone, flags, resultnum, numres, pseconds });
abs_struct!(Reo { reqi, nump, plid });
abs_struct!(NodeLapInfo { node, lap, plid, position });
abs_struct!(Nlp { reqi, info });
abs_struct!(CompCar { node, lap, plid, position, info, xyz, speed, direction, heading, angvel });
abs_struct!(Mci { reqi, info });
abs_struct!(Msx { reqi, msg });
abs_struct!(Msl { reqi, sound, msg });
abs_struct!(Crs { reqi, plid });
abs_struct!(Bfn { reqi, subt, ucid, clickid, clickmax, inst });
abs_struct!(Axi { reqi, axstart, numcp, numo, lname });
abs_struct!(Axo { reqi, plid });
abs_struct!(Btn { reqi, ucid, clickid, inst, bstyle, typein, l, t, w, h, text });
abs_struct!(Btc { reqi, ucid, clickid, inst, cflags });
abs_struct!(Btt { reqi, ucid, clickid, inst, typein, text });
abs_struct!(Rip { reqi, error, mpr, paused, options, ctime, ttime, rname });
abs_struct!(Ssh { reqi, error, name });
abs_struct!(ConInfo { plid, info, steer, thr, brk, clu, han, gearsp, speed, direction, heading, accelf, accelr, x, y });
abs_struct!(Con { reqi, spclose, time, a, b });
abs_struct!(CarContact { direction, heading, speed, z, x, y });
abs_struct!(Obh { reqi, plid, spclose, time, c, x, y, zbyte, index, flags });
abs_struct!(Hlv { reqi, plid, hlvc, time, c });
abs_struct!(Plc { reqi, ucid, cars });
abs_struct!(ObjectInfo { x, y, z, flags, index, heading });
abs_struct!(Axm { reqi, ucid, pmoaction, pmoflags, info });
abs_struct!(Acr { reqi, ucid, admin, result, text });
abs_struct!(HcpCarHandicap { h_mass, h_tres });
abs_struct!(Hcp { reqi, info });
abs_struct!(Nci { reqi, ucid, language, license, userid, ipaddress });
abs_struct!(Jrr { reqi, plid, ucid, jrraction, startpos });
abs_struct!(Uco { reqi, plid, ucoaction, time, c, info });
abs_struct!(Oco { reqi, ocoaction, index, identifier, data });
abs_struct!(Ttc { reqi, subt, ucid, b1, b2, b3 });
abs_struct!(Slc { reqi, ucid, cname });
abs_struct!(Csc { reqi, plid, cscaction, time, c });
abs_struct!(Cim { reqi, ucid, mode });
abs_struct!(Plh { reqi, hcaps });
abs_struct!(Arq { reqi });
abs_struct!(Arp { reqi, admin });
abs_struct!(Hlr { reqi });
abs_struct!(HostInfo { hname, track, flags, numconns });
abs_struct!(Hos { reqi, hinfo });
abs_struct!(Sel { reqi, hname, admin, spec });
abs_struct!(insim::relay::Error { reqi, err });

macro_rules! packet_kinds {
    ($($k:ident),* $(,)?) => {
        pub const KINDS: &[&str] = &[$(stringify!($k)),*];
        impl Abs for Packet {
            fn to_abs(&self) -> Value {
                match self {
                    $( Packet::$k(p) => json!({"kind": stringify!($k), "rec": p.to_abs()}), )*
                    _ => json!({"kind": "?", "rec": {}}),
                }
            }
            fn from_abs(v: &Value) -> R<Self> {
                let rec = field(v, "rec")?;
                match field(v, "kind")?.as_str() {
                    $( Some(stringify!($k)) => Ok(Packet::$k(Abs::from_abs(rec)?)), )*
                    _ => Err(format!("unknown kind in {v}")),
                }
            }
        }
        pub fn kind_of(p: &Packet) -> &'static str {
            match p { $( Packet::$k(_) => stringify!($k), )* _ => "?" }
        }
        /// One default-constructed packet of every kind.
        pub fn default_packets() -> Vec<Packet> {
            vec![ $( Packet::$k(Default::default()), )* ]
        }
    };
}
packet_kinds!(
    Isi, Ver, Tiny, Small, Sta, Sch, Sfp, Scc, Cpp, Ism, Mso, Iii, Mst, Mtc, Mod, Vtn, Rst, Ncn, Cnl, Cpr, Npl, Plp,
    Pll, Lap, Spx, Pit, Psf, Pla, Cch, Pen, Toc, Flg, Pfl, Fin, Res, Reo, Nlp, Mci, Msx, Msl, Crs, Bfn, Axi, Axo, Btn,
    Btc, Btt, Rip, Ssh, Con, Obh, Hlv, Plc, Axm, Acr, Hcp, Nci, Jrr, Uco, Oco, Ttc, Slc, Csc, Cim, Mal, Plh, Ipb,
    RelayArq, RelayArp, RelayHlr, RelayHos, RelaySel, RelayErr
);
