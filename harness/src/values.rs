//! Value conversions (C13 vehicles, C14 tracks, C15 durations / race laps, C16 game versions):
//! events recorded from the real code for Trace_Values.
use std::{
    collections::HashMap,
    io::{BufRead, Cursor, Write},
    str::FromStr,
    time::Duration,
};

use insim::{
    core::{
        binrw::{BinRead, BinWrite},
        game_version::GameVersion,
        track::Track,
        vehicle::Vehicle,
    },
    insim::RaceLaps,
};
use rand::{rngs::StdRng, Rng, SeedableRng};
use serde_json::{json, Value};

use crate::{
    abs::{cps, Abs},
    frames::{standalone, try_encode},
};

fn guard<T>(f: impl FnOnce() -> T) -> Result<T, ()> {
    std::panic::catch_unwind(std::panic::AssertUnwindSafe(f)).map_err(|_| ())
}

// ------------------------------------------------------------------------------------ C13
fn veh_event(b: [u8; 4]) -> Value {
    let r = guard(|| Vehicle::read_le(&mut Cursor::new(&b[..])));
    // the four bytes are the value however the reader hands them over (1, 2 or 3 bytes per read() call), and the next value in
    // the stream is still in step; a different outcome is reported as a result the specification never allows
    for k in 1..=3usize {
        let mut two = b.to_vec();
        two.extend_from_slice(&b);
        let mut rd = Chunked { data: &two, pos: 0, k };
        let r1 = guard(|| Vehicle::read_le(&mut rd));
        let r2 = guard(|| Vehicle::read_le(&mut rd));
        fn cls<E>(x: &Result<Result<Vehicle, E>, ()>) -> Option<Option<Vehicle>> {
            match x {
                Err(()) => None,
                Ok(Err(_)) => Some(None),
                Ok(Ok(v)) => Some(Some(v.clone())),
            }
        }
        if cls(&r1) != cls(&r) || (matches!(r, Ok(Ok(_))) && cls(&r2) != cls(&r)) {
            return json!({"ev": "VehRead", "bytes": b, "res": "differs-with-short-reads"});
        }
    }
    match r {
        Err(()) => json!({"ev": "VehRead", "bytes": b, "res": "panic"}),
        Ok(Err(_)) => json!({"ev": "VehRead", "bytes": b, "res": "err"}),
        Ok(Ok(v)) => {
            let a = v.to_abs();
            let mut w = Cursor::new(Vec::new());
            let re = match guard(|| v.write_le(&mut w)) {
                Ok(Ok(())) => w.into_inner(),
                _ => vec![],
            };
            json!({"ev": "VehRead", "bytes": b, "res": "ok", "k": a["k"], "name": a["name"], "id": a["id"], "re": re,
                   "disp": cps(&v.to_string()), "is_mod": v.is_mod(), "is_builtin": v.is_builtin(), "lic": format!("{:?}", v.license())})
        },
    }
}

fn veh_class(b: [u8; 4]) -> (&'static str, bool) {
    // (class, write-back identical) as the real code behaves
    match guard(|| Vehicle::read_le(&mut Cursor::new(&b[..]))) {
        Err(()) => ("panic", false),
        Ok(Err(_)) => ("error", true),
        Ok(Ok(v)) => {
            // no heap allocation in this hot loop (the counting allocator's atomics would be contended by 16 threads)
            let mut back = [0u8; 4];
            let mut w = Cursor::new(&mut back[..]);
            let ok = matches!(guard(|| v.write_le(&mut w)), Ok(Ok(()))) && back == b;
            match v {
                Vehicle::Mod(_) => ("mod", ok),
                Vehicle::Unknown => ("unknown", ok),
                _ => ("std", ok),
            }
        },
    }
}

const SEGS: [(u8, u8); 8] = [(0, 0), (1, 47), (48, 57), (58, 64), (65, 90), (91, 96), (97, 122), (123, 255)];

/// exhaustive sweep of all 2^32 identifiers, compressed into boxes on which the real classification is uniform
fn veh_exhaustive(w: &mut impl Write) -> usize {
    use std::sync::mpsc;
    let (tx, rx) = mpsc::channel::<Vec<Value>>();
    let threads = 16usize;
    let mut handles = Vec::new();
    for t in 0..threads {
        let tx = tx.clone();
        handles.push(std::thread::spawn(move || {
            let mut out: Vec<Value> = Vec::new();
            let mut b3 = t;
            while b3 < 256 {
                if b3 != 0 {
                    // the whole 2^24 slab must be 'mod' and write back identically
                    let mut uniform = true;
                    let mut rt = true;
                    let mut bad: Option<[u8; 4]> = None;
                    for x in 0..(1u32 << 24) {
                        let b = [(x & 255) as u8, ((x >> 8) & 255) as u8, ((x >> 16) & 255) as u8, b3 as u8];
                        let (c, ok) = veh_class(b);
                        if c != "mod" {
                            uniform = false;
                            bad = Some(b);
                            break;
                        }
                        rt &= ok;
                    }
                    if uniform {
                        out.push(json!({"ev": "VehBox", "lo": [0, 0, 0, b3], "hi": [255, 255, 255, b3], "cls": "mod", "rt_ok": rt, "n": 1u32 << 24}));
                    } else {
                        out.push(veh_event(bad.unwrap()));
                    }
                }
                b3 += threads;
            }
            if t == 0 {
                // b3 = 0: segment each position by the alphanumeric edges
                for s0 in SEGS {
                    for s1 in SEGS {
                        for s2 in SEGS {
                            let alnum = |s: (u8, u8)| (s.0 as char).is_ascii_alphanumeric();
                            if alnum(s0) && alnum(s1) && alnum(s2) {
                                for a in s0.0..=s0.1 {
                                    for b in s1.0..=s1.1 {
                                        for c in s2.0..=s2.1 {
                                            out.push(veh_event([a, b, c, 0]));
                                        }
                                    }
                                }
                                continue;
                            }
                            let mut first: Option<&'static str> = None;
                            let mut uniform = true;
                            let mut rt = true;
                            let mut bad = [0u8; 4];
                            'outer: for a in s0.0..=s0.1 {
                                for b in s1.0..=s1.1 {
                                    for c in s2.0..=s2.1 {
                                        let (cl, ok) = veh_class([a, b, c, 0]);
                                        rt &= ok;
                                        match first {
                                            None => first = Some(cl),
                                            Some(f) if f != cl => {
                                                uniform = false;
                                                bad = [a, b, c, 0];
                                                break 'outer;
                                            },
                                            _ => {},
                                        }
                                    }
                                }
                            }
                            let n = (s0.1 as u32 - s0.0 as u32 + 1) * (s1.1 as u32 - s1.0 as u32 + 1) * (s2.1 as u32 - s2.0 as u32 + 1);
                            if uniform {
                                out.push(json!({"ev": "VehBox", "lo": [s0.0, s1.0, s2.0, 0], "hi": [s0.1, s1.1, s2.1, 0], "cls": first.unwrap_or("?"), "rt_ok": rt, "n": n}));
                            } else {
                                out.push(veh_event(bad));
                                out.push(veh_event([s0.0, s1.0, s2.0, 0]));
                            }
                        }
                    }
                }
            }
            let _ = tx.send(out);
        }));
    }
    drop(tx);
    let mut n = 0;
    for evs in rx {
        for e in evs {
            let _ = writeln!(w, "{}", e);
            n += 1;
        }
    }
    for h in handles {
        let _ = h.join();
    }
    n
}

// ------------------------------------------------------------------------------------ C14
fn track_read(b: &[u8; 6]) -> Result<Result<Track, ()>, ()> {
    guard(|| Track::read_le(&mut Cursor::new(&b[..])).map_err(|_| ()))
}

/// a reader that hands over at most `k` bytes per read() call (a socket, a buffered reader at its buffer boundary)
struct Chunked<'a> {
    data: &'a [u8],
    pos: usize,
    k: usize,
}
impl std::io::Read for Chunked<'_> {
    fn read(&mut self, buf: &mut [u8]) -> std::io::Result<usize> {
        let n = buf.len().min(self.k).min(self.data.len() - self.pos);
        buf[..n].copy_from_slice(&self.data[self.pos..self.pos + n]);
        self.pos += n;
        Ok(n)
    }
}
impl std::io::Seek for Chunked<'_> {
    fn seek(&mut self, to: std::io::SeekFrom) -> std::io::Result<u64> {
        let p = match to {
            std::io::SeekFrom::Start(x) => x as i64,
            std::io::SeekFrom::Current(d) => self.pos as i64 + d,
            std::io::SeekFrom::End(d) => self.data.len() as i64 + d,
        };
        if p < 0 {
            return Err(std::io::Error::new(std::io::ErrorKind::InvalidInput, "seek before start"));
        }
        self.pos = (p as usize).min(self.data.len());
        Ok(self.pos as u64)
    }
}
/// the same six bytes arriving in pieces are the same configuration, and the next value in the stream is still in step
fn track_chunk_ok(c: &[u8; 6], t: &Track) -> bool {
    (1..=5usize).all(|k| {
        let mut two = c.to_vec();
        two.extend_from_slice(c);
        let mut r = Chunked { data: &two, pos: 0, k };
        let a = guard(|| Track::read_le(&mut r).map_err(|_| ()));
        let b = guard(|| Track::read_le(&mut r).map_err(|_| ()));
        matches!((a, b), (Ok(Ok(x)), Ok(Ok(y))) if x == *t && y == *t)
    })
}

fn track_events(w: &mut impl Write, rng: &mut StdRng, randoms: usize) -> usize {
    let mut n = 0;
    let up = b"ABCDEFGHIJKLMNOPQRSTUVWXYZ";
    let dg = b"0123456789";
    let mut shaped: Vec<[u8; 6]> = Vec::new();
    for a in up {
        for b in up {
            for d1 in dg {
                shaped.push([*a, *b, *d1, 0, 0, 0]);
                for l in up {
                    shaped.push([*a, *b, *d1, *l, 0, 0]);
                }
                for d2 in dg {
                    shaped.push([*a, *b, *d1, *d2, 0, 0]);
                    for l in up {
                        shaped.push([*a, *b, *d1, *d2, *l, 0]);
                    }
                }
            }
        }
    }
    let mut accepted: Vec<[u8; 6]> = Vec::new();
    for c in shaped.iter() {
        match track_read(c) {
            Ok(Ok(t)) => {
                accepted.push(*c);
                let mut wr = Cursor::new(Vec::new());
                let re = match guard(|| t.write_le(&mut wr)) {
                    Ok(Ok(())) => wr.into_inner(),
                    _ => vec![],
                };
                let _ = writeln!(
                    w,
                    "{}",
                    json!({"ev": "TrackRow", "bytes": c, "code": cps(&t.code()), "name": cps(&format!("{:?}", t).to_uppercase()),
                           "disp": cps(&t.to_string()), "rev": t.is_reverse(), "open": t.is_open(),
                           "dist": t.distance_mile().is_some() || t.distance_km().is_some(),
                           // distances in 1/1000 mile / km (-1 = none); the kilometre figure must be the mile figure converted
                           "mile": t.distance_mile().map(|d| (d * 1000.0).round() as i64).unwrap_or(-1),
                           "km_ok": match (t.distance_mile(), t.distance_km()) {
                               (None, None) => true,
                               (Some(m), Some(k)) => (k - m * 1.609_344).abs() <= 0.001 * m.max(1.0) && m > 0.0,
                               _ => false,
                           },
                           "full": cps(&t.complete_name()),
                           "lic": format!("{:?}", t.license()), "re": re, "chunk_ok": track_chunk_ok(c, &t)})
                );
                n += 1;
            },
            Ok(Err(())) => {},
            Err(()) => {
                let _ = writeln!(w, "{}", json!({"ev": "TrackNon", "bytes": c, "res": "panic"}));
                n += 1;
            },
        }
    }
    // values outside the canonical form: other paddings / cases of accepted codes, and random values
    let mut other_accepted = 0;
    let mut non: Vec<[u8; 6]> = Vec::new();
    for c in accepted.iter() {
        let len = c.iter().position(|x| *x == 0).unwrap_or(6);
        let mut v = *c;
        v[5] = b'X';
        non.push(v);
        let mut v = *c;
        v[len.min(5)] = b' ';
        non.push(v);
        let mut v = *c;
        v[0] = v[0].to_ascii_lowercase();
        non.push(v);
        if len < 5 {
            let mut v = [0u8; 6];
            v[1..=len].copy_from_slice(&c[..len]);
            non.push(v); // shifted right by one
            let mut v = *c;
            v[len + 1] = c[len - 1];
            non.push(v); // garbage after the terminator
        }
    }
    for _ in 0..randoms {
        let mut v = [0u8; 6];
        for x in v.iter_mut() {
            *x = rng.gen();
        }
        non.push(v);
        let mut v = accepted[rng.gen_range(0..accepted.len())];
        let i = rng.gen_range(0..6);
        v[i] = rng.gen();
        non.push(v);
    }
    for v in non {
        if accepted.contains(&v) {
            continue;
        }
        let res = match track_read(&v) {
            Ok(Ok(_)) => {
                other_accepted += 1;
                "accepted"
            },
            Ok(Err(())) => "err",
            Err(()) => "panic",
        };
        if res != "err" || n % 50 == 0 {
            let _ = writeln!(w, "{}", json!({"ev": "TrackNon", "bytes": v, "res": res}));
        }
        n += 1;
    }
    let _ = writeln!(w, "{}", json!({"ev": "TrackEnd", "accepted": accepted.len(), "other_accepted": other_accepted, "shaped": shaped.len()}));
    n + 1
}

// ------------------------------------------------------------------------------------ C15
struct DurField {
    kind: String,
    path: Vec<String>,
    frame0: Vec<u8>,
    off: usize,
    w: usize,
    scale: u64,
    rec: Value,
}

fn set_path(rec: &mut Value, path: &[String], v: Value) {
    let mut cur = rec;
    for p in &path[..path.len() - 1] {
        cur = cur.get_mut(p).unwrap();
    }
    cur[path.last().unwrap()] = v;
}
fn get_path<'a>(rec: &'a Value, path: &[String]) -> &'a Value {
    let mut cur = rec;
    for p in path {
        cur = &cur[p];
    }
    cur
}
fn dur_abs(ms: u64, ns: u32) -> Value {
    (Duration::from_millis(ms) + Duration::from_nanos(ns as u64)).to_abs()
}

fn find_duration_fields() -> Vec<DurField> {
    let mut out = Vec::new();
    let mut cands: Vec<(String, Value)> = crate::abs::default_packets().iter().map(|p| {
        let a = p.to_abs();
        (a["kind"].as_str().unwrap().to_string(), a["rec"].clone())
    }).collect();
    for k in ["Ssp", "Ssg", "Stp", "Rtp", "Nli"] {
        cands.push(("Small".to_string(), json!({"reqi": 1, "subt": {"k": k, "dur": dur_abs(0, 0), "vta": 0, "tms": 0, "flags": 0, "cars": 0}})));
    }
    for (kind, rec) in cands {
        let mut paths: Vec<Vec<String>> = Vec::new();
        if let Value::Object(m) = &rec {
            for (k, v) in m {
                if v.get("ms").is_some() {
                    paths.push(vec![k.clone()]);
                }
                if k == "subt" && v.get("dur").map(|d| d.get("ms").is_some()).unwrap_or(false) {
                    paths.push(vec!["subt".into(), "dur".into()]);
                }
            }
        }
        for path in paths {
            let mut r0 = rec.clone();
            set_path(&mut r0, &path, dur_abs(0, 0));
            let mut r1 = rec.clone();
            set_path(&mut r1, &path, dur_abs(10 * 0x0102, 0)); // 0x0102 units if cs, 0x0A14 if ms
            let (p0, p1) = match (insim::Packet::from_abs(&json!({"kind": kind, "rec": r0})), insim::Packet::from_abs(&json!({"kind": kind, "rec": r1}))) {
                (Ok(a), Ok(b)) => (a, b),
                _ => continue,
            };
            let (b0, b1) = match (try_encode("U", &p0), try_encode("U", &p1)) {
                (Ok(a), Ok(b)) => (a, b),
                _ => continue,
            };
            if b0.len() != b1.len() {
                continue;
            }
            let diffs: Vec<usize> = (0..b0.len()).filter(|i| b0[*i] != b1[*i]).collect();
            if diffs.is_empty() {
                continue;
            }
            let off = diffs[0];
            // width: a 2-byte field refuses 700000 ms at either scale, a 4-byte field accepts it
            let mut r3 = rec.clone();
            set_path(&mut r3, &path, dur_abs(700_000, 0));
            let w = match insim::Packet::from_abs(&json!({"kind": kind, "rec": r3})).ok().and_then(|p| try_encode("U", &p).ok()) {
                Some(_) => 4,
                None => 2,
            };
            let scale = if b1[off] as u64 + 256 * b1[off + 1] as u64 == 0x0102 { 10 } else { 1 };
            out.push(DurField { kind: kind.clone(), path, frame0: b0, off, w, scale, rec: r0 });
        }
    }
    out
}

fn dur_dec_event(f: &DurField, v: u32) -> Value {
    let mut frame = f.frame0.clone();
    frame[f.off] = (v & 255) as u8;
    frame[f.off + 1] = ((v >> 8) & 255) as u8;
    if f.w == 4 {
        frame[f.off + 2] = ((v >> 16) & 255) as u8;
        frame[f.off + 3] = ((v >> 24) & 255) as u8;
    }
    let base = json!({"ev": "DurDec", "kind": f.kind, "field": f.path.join("."), "w": f.w, "scale": f.scale, "v": [v & 0xffff, v >> 16]});
    let (_, p) = standalone("U", &frame);
    let mut e = base;
    match p {
        None => {
            e["ms"] = json!([0, 0, 0, 0]);
            e["ns"] = json!(-1);
            e["re_res"] = json!("decode-failed");
            e["re"] = json!([0, 0]);
        },
        Some(p) => {
            let a = p.to_abs();
            let d = get_path(&a["rec"], &f.path);
            e["ms"] = d["ms"].clone();
            e["ns"] = d["ns"].clone();
            match try_encode("U", &p) {
                Ok(b) => {
                    let lo = b[f.off] as u32 + 256 * b[f.off + 1] as u32;
                    let hi = if f.w == 4 { b[f.off + 2] as u32 + 256 * b[f.off + 3] as u32 } else { 0 };
                    e["re_res"] = json!("ok");
                    e["re"] = json!([lo, hi]);
                },
                Err(x) => {
                    e["re_res"] = json!(x);
                    e["re"] = json!([0, 0]);
                },
            }
        },
    }
    e
}

fn dur_enc_event(f: &DurField, ms: u64, ns: u32) -> Value {
    dur_enc_event5(f, 0, ms, ns)
}

/// hi = the fifth 16-bit limb of the millisecond count (durations of 2^64 ms and more: far beyond every field, to be refused)
fn dur_enc_event5(f: &DurField, hi: u16, ms: u64, ns: u32) -> Value {
    let mut rec = f.rec.clone();
    let mut d = dur_abs(ms, ns);
    let low = d["ms"].clone();
    if hi > 0 {
        let mut limbs = d["ms"].as_array().cloned().unwrap_or_default();
        limbs.push(json!(hi));
        d["ms"] = Value::Array(limbs);
    }
    set_path(&mut rec, &f.path, d.clone());
    let mut e = json!({"ev": "DurEnc", "kind": f.kind, "field": f.path.join("."), "w": f.w, "scale": f.scale, "ms": low, "ns": d["ns"], "huge": hi > 0});
    match insim::Packet::from_abs(&json!({"kind": f.kind, "rec": rec})) {
        Err(x) => {
            e["res"] = json!(format!("build:{x}"));
            e["v"] = json!([0, 0]);
        },
        Ok(p) => match try_encode("U", &p) {
            Ok(b) => {
                let lo = b[f.off] as u32 + 256 * b[f.off + 1] as u32;
                let hi = if f.w == 4 { b[f.off + 2] as u32 + 256 * b[f.off + 3] as u32 } else { 0 };
                e["res"] = json!("ok");
                e["v"] = json!([lo, hi]);
            },
            Err(x) => {
                e["res"] = json!(if x == "panic" { "panic" } else { "err" });
                e["v"] = json!([0, 0]);
            },
        },
    }
    e
}

fn laps_events(w: &mut impl Write) -> usize {
    let mut n = 0;
    for b in 0..=255u8 {
        let mut e = json!({"ev": "LapsDec", "b": b});
        match guard(|| RaceLaps::read_le(&mut Cursor::new(&[b][..]))) {
            Ok(Ok(r)) => {
                let a = r.to_abs();
                e["k"] = a["k"].clone();
                e["v"] = a["v"].clone();
                let mut wr = Cursor::new(Vec::new());
                e["re"] = match guard(|| r.write_le(&mut wr)) {
                    Ok(Ok(())) => json!(wr.into_inner()[0]),
                    _ => json!(-1),
                };
            },
            _ => {
                e["k"] = json!("?");
                e["v"] = json!(0);
                e["re"] = json!(-1);
            },
        }
        let _ = writeln!(w, "{}", e);
        n += 1;
    }
    let mut vals: Vec<RaceLaps> = vec![RaceLaps::Practice];
    for v in 0..=1100usize {
        vals.push(RaceLaps::Laps(v));
    }
    for v in 0..=300usize {
        vals.push(RaceLaps::Hours(v));
    }
    for v in [1usize << 16, 1 << 31, usize::MAX - 189, usize::MAX] {
        vals.push(RaceLaps::Laps(v));
        vals.push(RaceLaps::Hours(v));
    }
    for r in vals {
        let a = r.to_abs();
        let v = a["v"].as_u64().unwrap_or(0).min(2_000_000_000);
        let mut e = json!({"ev": "LapsEnc", "k": a["k"], "v": v});
        let mut wr = Cursor::new(Vec::new());
        match guard(|| r.write_le(&mut wr)) {
            Ok(Ok(())) => {
                e["res"] = json!("ok");
                e["b"] = json!(wr.into_inner()[0]);
            },
            Ok(Err(_)) => {
                e["res"] = json!("err");
                e["b"] = json!(0);
            },
            Err(()) => {
                e["res"] = json!("panic");
                e["b"] = json!(0);
            },
        }
        let _ = writeln!(w, "{}", e);
        n += 1;
    }
    n
}

// ------------------------------------------------------------------------------------ C16
fn gv_string(cpsv: &[i64]) -> String {
    cpsv.iter().map(|c| if *c >= 200000 { '\u{0663}' } else { char::from_u32(*c as u32).unwrap_or('?') }).collect()
}

/// parse with a watchdog: a parser that loops for ever is reported as "hang"
fn gv_parse_event(cpsv: &[i64]) -> Value {
    use std::sync::mpsc;
    let s = gv_string(cpsv);
    let (tx, rx) = mpsc::channel();
    let s2 = s.clone();
    let _ = std::thread::spawn(move || {
        let r = guard(|| GameVersion::from_str(&s2));
        let _ = tx.send(r);
    });
    let mut e = json!({"ev": "GvParse", "in": cpsv, "minor": 0, "patch": -1, "reparse_eq": false, "finite": true});
    match rx.recv_timeout(Duration::from_secs(3)) {
        Err(_) => e["res"] = json!("hang"),
        Ok(Err(())) => e["res"] = json!("panic"),
        Ok(Ok(Err(_))) => e["res"] = json!("err"),
        Ok(Ok(Ok(v))) => {
            e["res"] = json!("ok");
            e["minor"] = json!(v.minor as u32);
            // (TLC's integers have 32 bits: a larger revision is reported as -2, "beyond")
            e["patch"] = json!(v.patch.map(|p| if p > i32::MAX as usize { -2 } else { p as i64 }).unwrap_or(-1));
            let printed = v.to_string();
            e["printed"] = cps(&printed);
            e["finite"] = json!(v.major.is_finite());
            e["reparse_eq"] = json!(matches!(guard(|| GameVersion::from_str(&printed)), Ok(Ok(v2)) if v2 == v && v2.cmp(&v) == std::cmp::Ordering::Equal));
        },
    }
    e
}

/// values-replay --in vals.ndjson --out trace.ndjson : the inputs TLC enumerated, run through the real code
pub fn cmd_values_replay(a: &HashMap<String, String>) -> i32 {
    let path = a.get("in").expect("--in");
    let out = a.get("out").expect("--out");
    let mut w = std::io::BufWriter::new(std::fs::File::create(out).expect("create"));
    let mut vers: Vec<(GameVersion, Value)> = Vec::new();
    let mut n = 0usize;
    for line in std::io::BufReader::new(std::fs::File::open(path).expect("open")).lines() {
        let v: Value = serde_json::from_str(&line.unwrap()).expect("json");
        match v["t"].as_str() {
            Some("gv") => {
                let cp: Vec<i64> = v["in"].as_array().unwrap().iter().map(|x| x.as_i64().unwrap()).collect();
                let e = gv_parse_event(&cp);
                let hang = e["res"] == "hang";
                let _ = writeln!(w, "{}", e);
                n += 1;
                if hang {
                    let _ = w.flush();
                    println!("{}", json!({"events": n, "hang": true}));
                    std::process::exit(0);
                }
            },
            Some("ver") => {
                let cp: Vec<i64> = v["text"].as_array().unwrap().iter().map(|x| x.as_i64().unwrap()).collect();
                if let Ok(g) = GameVersion::from_str(&gv_string(&cp)) {
                    vers.push((g, v["key"].clone()));
                }
            },
            Some("veh") => {
                let b: Vec<u8> = v["bytes"].as_array().unwrap().iter().map(|x| x.as_u64().unwrap() as u8).collect();
                let _ = writeln!(w, "{}", veh_event([b[0], b[1], b[2], b[3]]));
                n += 1;
            },
            _ => {},
        }
    }
    for (ga, ka) in vers.iter() {
        for (gb, kb) in vers.iter() {
            let ord = |o: std::cmp::Ordering| match o {
                std::cmp::Ordering::Less => -1,
                std::cmp::Ordering::Equal => 0,
                std::cmp::Ordering::Greater => 1,
            };
            let _ = writeln!(w, "{}", json!({"ev": "GvCmp", "a": ka, "b": kb, "res": ord(ga.cmp(gb)), "eq": ga == gb, "rev": ord(gb.cmp(ga))}));
            n += 1;
        }
    }
    println!("{}", json!({"events": n, "versions": vers.len()}));
    0
}

/// values-trace --what veh|track|time|gv --out trace.ndjson --seed n --tier quick|thorough
pub fn cmd_values_trace(a: &HashMap<String, String>) -> i32 {
    let out = a.get("out").expect("--out");
    let what = a.get("what").cloned().unwrap_or_default();
    let seed: u64 = a.get("seed").and_then(|s| s.parse().ok()).unwrap_or(1);
    let thorough = a.get("tier").map(|t| t == "thorough").unwrap_or(false);
    let mut rng = StdRng::seed_from_u64(seed);
    let mut w = std::io::BufWriter::new(std::fs::File::create(out).expect("create"));
    let mut n = 0usize;
    match what.as_str() {
        "veh" => {
            // all 2^32 identifiers, in both tiers (about 5 s on 16 cores)
            let _ = thorough;
            n += veh_exhaustive(&mut w);
            for _ in 0..10000 {
                let b: [u8; 4] = rng.gen();
                let _ = writeln!(w, "{}", veh_event(b));
                let mut c = b;
                c[3] = 0;
                let _ = writeln!(w, "{}", veh_event(c));
                n += 2;
            }
        },
        "track" => n += track_events(&mut w, &mut rng, if thorough { 1_000_000 } else { 50_000 }),
        "time" => {
            let fields = find_duration_fields();
            for f in fields.iter() {
                if f.w == 2 {
                    for v in 0..=65535u32 {
                        let _ = writeln!(w, "{}", dur_dec_event(f, v));
                        n += 1;
                    }
                } else {
                    let mut vals: Vec<u32> = vec![0, 1, 9, 10, 255, 256, 65535, 65536, 0x7fff_ffff, 0x8000_0000, 0xffff_fffe, 0xffff_ffff, 429_496_729, 429_496_730];
                    for _ in 0..(if thorough { 20000 } else { 1500 }) {
                        vals.push(rng.gen());
                        vals.push(rng.gen::<u32>() >> rng.gen_range(0..32));
                    }
                    for v in vals {
                        let _ = writeln!(w, "{}", dur_dec_event(f, v));
                        n += 1;
                    }
                }
                // encode side: v*scale + r around the boundaries and beyond the range
                let max: u64 = if f.w == 2 { 65535 } else { 0xffff_ffff };
                let mut units: Vec<u64> = vec![0, 1, 2, 99, 100, 255, 256, max - 1, max, max + 1, max + 2, 2 * max, (1 << 32) + 5, (1 << 40)];
                for _ in 0..(if thorough { 2000 } else { 200 }) {
                    units.push(rng.gen_range(0..=max + 10));
                }
                // 2^64 ms and beyond: the low 64 bits alone would fit the field
                for (hi, low) in [(1u16, 5000u64), (1, 0), (3, 65535 * f.scale), (15, 1)] {
                    let _ = writeln!(w, "{}", dur_enc_event5(f, hi, low, 0));
                    n += 1;
                }
                for u in units {
                    for r_ms in 0..f.scale {
                        for ns in [0u32, 1, 999_999] {
                            let _ = writeln!(w, "{}", dur_enc_event(f, u.saturating_mul(f.scale) + r_ms, ns));
                            n += 1;
                        }
                    }
                }
            }
            n += laps_events(&mut w);
            let _ = w.flush();
            println!("{}", json!({"events": n, "duration_fields": fields.iter().map(|f| format!("{}.{} w{} x{}", f.kind, f.path.join("."), f.w, f.scale)).collect::<Vec<_>>()}));
            return 0;
        },
        "gv" => {
            // longer and Unicode strings, and all 8-byte wire forms of the shape LFS emits through IS_VER
            let pool: Vec<i64> = vec![48, 49, 53, 55, 57, 46, 65, 69, 90, 97, 101, 122, 45, 32, 0x663, 0xe9, 200001, 0x4e00];
            for _ in 0..(if thorough { 200000 } else { 20000 }) {
                let len = rng.gen_range(0..12);
                let s: Vec<i64> = (0..len).map(|_| pool[rng.gen_range(0..pool.len())]).collect();
                let s: Vec<i64> = s.into_iter().map(|c| if c == 0x663 { 200001 } else { c }).collect();
                let _ = writeln!(w, "{}", gv_parse_event(&s));
                n += 1;
            }
            // number shapes across the whole magnitude range of the f32 behind the version number: k integer digits,
            // z zeros after the point, with and without letter / revision (the printed form must parse back whenever finite)
            for k in 0..46usize {
                for z in (0..52usize).chain([60, 80]) {
                    for (lead, tail) in [(49i64, 0i64), (57, 57), (55, 49)] {
                        let mut num: Vec<i64> = Vec::new();
                        if k > 0 {
                            num.push(lead);
                            num.extend(std::iter::repeat(48).take(k - 1));
                        }
                        if z > 0 || k == 0 {
                            num.push(46);
                            num.extend(std::iter::repeat(48).take(z));
                            num.push(if tail == 0 { 49 } else { tail });
                        }
                        for suffix in [vec![], vec![75], vec![102, 49, 50]] {
                            if (k + z) % 3 != 0 && !suffix.is_empty() && k > 2 && z > 2 {
                                continue;
                            }
                            let mut s = num.clone();
                            s.extend(suffix);
                            let _ = writeln!(w, "{}", gv_parse_event(&s));
                            n += 1;
                        }
                    }
                }
            }
        },
        _ => return 2,
    }
    let _ = w.flush();
    println!("{}", json!({"events": n}));
    0
}

/// values-rerun --in events.ndjson --out trace.ndjson : recompute stored events from their inputs with the current code
pub fn cmd_values_rerun(a: &HashMap<String, String>) -> i32 {
    let path = a.get("in").expect("--in");
    let out = a.get("out").expect("--out");
    let mut w = std::io::BufWriter::new(std::fs::File::create(out).expect("create"));
    let fields = find_duration_fields();
    for line in std::io::BufReader::new(std::fs::File::open(path).expect("open")).lines() {
        let e: Value = serde_json::from_str(&line.unwrap()).expect("json");
        let ints = |v: &Value| -> Vec<i64> { v.as_array().map(|a| a.iter().map(|x| x.as_i64().unwrap_or(0)).collect()).unwrap_or_default() };
        let ne = match e["ev"].as_str().unwrap_or("") {
            "VehRead" => {
                let b = ints(&e["bytes"]);
                veh_event([b[0] as u8, b[1] as u8, b[2] as u8, b[3] as u8])
            },
            "GvParse" => gv_parse_event(&ints(&e["in"])),
            "DurDec" | "DurEnc" => {
                let f = fields.iter().find(|f| f.kind == e["kind"].as_str().unwrap_or("") && f.path.join(".") == e["field"].as_str().unwrap_or(""));
                match f {
                    None => e.clone(),
                    Some(f) => {
                        if e["ev"] == "DurDec" {
                            let v = ints(&e["v"]);
                            dur_dec_event(f, (v[0] as u32) | ((v[1] as u32) << 16))
                        } else {
                            let l = ints(&e["ms"]);
                            let ms = (l[0] as u64) | ((l[1] as u64) << 16) | ((l[2] as u64) << 32) | ((l[3] as u64) << 48);
                            dur_enc_event(f, ms, e["ns"].as_u64().unwrap_or(0) as u32)
                        }
                    },
                }
            },
            "LapsEnc" | "LapsDec" => {
                let mut buf: Vec<u8> = Vec::new();
                let _ = laps_events(&mut buf);
                let all = String::from_utf8(buf).unwrap_or_default();
                let mut found = e.clone();
                for l in all.lines() {
                    let x: Value = serde_json::from_str(l).unwrap();
                    if x["ev"] == e["ev"] && x["k"] == e["k"] && x["v"] == e["v"] && (e["ev"] == "LapsEnc" || x["b"] == e["b"]) {
                        found = x;
                        break;
                    }
                }
                found
            },
            _ => e.clone(),
        };
        let _ = writeln!(w, "{}", ne);
    }
    0
}
