//! spec -> impl replay of LfsWire vectors on the real Codec, and impl -> spec event recording.
use std::{collections::HashMap, io::BufRead, io::Write};

use serde_json::{json, Value};

use crate::{
    abs::{kind_of, Abs},
    frames::{size_byte, standalone, try_encode, Verdict},
};

/// arrays of strings are sets (flag names, car names): order-insensitive comparison
pub fn canon(v: &Value) -> Value {
    match v {
        Value::Array(a) => {
            let mut items: Vec<Value> = a.iter().map(canon).collect();
            if !items.is_empty() && items.iter().all(|x| x.is_string()) {
                items.sort_by(|x, y| x.as_str().cmp(&y.as_str()));
            }
            Value::Array(items)
        },
        Value::Object(m) => Value::Object(m.iter().map(|(k, x)| (k.clone(), canon(x))).collect()),
        other => other.clone(),
    }
}

/// path of the first difference between two abstract records
pub fn first_diff(a: &Value, b: &Value, path: &str) -> Option<String> {
    match (a, b) {
        (Value::Object(x), Value::Object(y)) => {
            let mut keys: Vec<&String> = x.keys().chain(y.keys()).collect();
            keys.sort();
            keys.dedup();
            for k in keys {
                match (x.get(k), y.get(k)) {
                    (Some(p), Some(q)) => {
                        if let Some(d) = first_diff(p, q, &format!("{path}.{k}")) {
                            return Some(d);
                        }
                    },
                    _ => return Some(format!("{path}.{k} (missing)")),
                }
            }
            None
        },
        (Value::Array(x), Value::Array(y)) => {
            if x.len() != y.len() {
                return Some(format!("{path} (length {} vs {})", x.len(), y.len()));
            }
            for (i, (p, q)) in x.iter().zip(y.iter()).enumerate() {
                if let Some(d) = first_diff(p, q, &format!("{path}[{i}]")) {
                    return Some(d);
                }
            }
            None
        },
        _ => {
            if a == b {
                None
            } else {
                Some(format!("{path}: {a} vs {b}"))
            }
        },
    }
}

fn bytes_of(v: &Value) -> Vec<u8> {
    v.as_array().map(|a| a.iter().map(|x| x.as_u64().unwrap_or(0) as u8).collect()).unwrap_or_default()
}

fn first_byte_diff(a: &[u8], b: &[u8]) -> String {
    if a.len() != b.len() {
        return format!("length {} vs {}", a.len(), b.len());
    }
    for (i, (x, y)) in a.iter().zip(b.iter()).enumerate() {
        if x != y {
            return format!("offset {i}: {x} vs {y}");
        }
    }
    "equal".into()
}

/// Strip indices/values so that a finding key names the field, not the concrete numbers.
fn field_of(diff: &str) -> String {
    let d = diff.split(':').next().unwrap_or(diff);
    let mut out = String::new();
    let mut skip = false;
    for c in d.chars() {
        match c {
            '[' => skip = true,
            ']' => skip = false,
            _ if !skip => out.push(c),
            _ => {},
        }
    }
    out.trim().to_string()
}

pub struct Finding {
    pub stage: &'static str,
    pub field: String,
    pub detail: String,
}

/// Run one vector through the real codec; returns the findings (empty = conforms).
pub fn check_vector(v: &Value) -> Result<Vec<Finding>, String> {
    let kind = v["kind"].as_str().unwrap_or("");
    let mode = v["mode"].as_str().unwrap_or("C");
    let rec = &v["rec"];
    let outcome = v["outcome"].as_str().unwrap_or("ok");
    let in_domain = v["domain"].as_str().unwrap_or("in") == "in";
    let spec_bytes = bytes_of(&v["bytes"]);
    let mut out = Vec::new();
    let p = insim::Packet::from_abs(&json!({"kind": kind, "rec": rec})).map_err(|e| format!("build {kind}: {e}"))?;
    let enc = try_encode(mode, &p);
    let maxlen = if mode == "U" { 255 } else { 1020 };
    match (&enc, outcome) {
        (Ok(b), "refused") => {
            out.push(Finding { stage: "emits-unrepresentable", field: "frame".into(), detail: format!("the specification refuses this packet but the encoder returned {} bytes {:?}", b.len(), b) });
        },
        (Err(e), "ok") if in_domain => {
            out.push(Finding { stage: "refuses-representable", field: e.split(':').next().unwrap_or("").to_string(), detail: format!("encoder result {e}; the specification encodes it as {:?}", spec_bytes) });
        },
        _ => {},
    }
    if let Ok(b) = &enc {
        // C03: one well-formed frame
        let wf = b.len() % 4 == 0 && b.len() >= 4 && b.len() <= maxlen && b[0] == size_byte(mode, b.len());
        if !wf {
            out.push(Finding { stage: "malformed-frame", field: "size".into(), detail: format!("length {} size byte {} mode {mode}", b.len(), b[0]) });
        }
        let (verdict, p2) = standalone(mode, b);
        match (&verdict, p2) {
            (Verdict::Pkt { consumed, dbg }, Some(p2)) => {
                if *consumed != b.len() {
                    out.push(Finding { stage: "malformed-frame", field: "consumed".into(), detail: format!("decoding the encoder's frame consumed {consumed} of {} bytes", b.len()) });
                }
                if kind_of(&p2) != kind {
                    out.push(Finding { stage: "malformed-frame", field: "kind".into(), detail: format!("decodes as {}", kind_of(&p2)) });
                }
                // C01 typed round trip (structural comparison of the projected records; the Debug rendering
                // is only consulted when the projections agree, and sets are compared as sets)
                let _ = dbg;
                if in_domain && outcome != "refused" {
                    if let Some(diff) = first_diff(&canon(&p.to_abs()), &canon(&p2.to_abs()), "") {
                        out.push(Finding { stage: "roundtrip-typed", field: field_of(&diff), detail: format!("encode then decode changes the packet at {diff}") });
                    }
                }
                match try_encode(mode, &p2) {
                    Ok(b2) if b2 == *b => {},
                    Ok(b2) => out.push(Finding { stage: "roundtrip-bytes", field: first_byte_diff(b, &b2), detail: format!("re-encoding the decoded packet gives {:?}, first {:?}", b2, b) }),
                    Err(e) => out.push(Finding { stage: "reencode-fails", field: e.clone(), detail: format!("re-encoding a decoded packet: {e}") }),
                }
            },
            (other, _) => {
                if outcome == "lossy" {
                    out.push(Finding { stage: "malformed-frame", field: "decode".into(), detail: format!("the encoder's own frame does not decode: {:?}", other) });
                }
                if outcome == "ok" {
                    out.push(Finding { stage: "malformed-frame", field: "decode".into(), detail: format!("the encoder's own frame does not decode: {:?}", other) });
                    // ... which is also a lost packet on the encode -> decode path (C01)
                    out.push(Finding { stage: "roundtrip-typed", field: "decode".into(), detail: format!("encode then decode loses the packet: the encoder's own frame does not decode: {:?}", other) });
                }
            },
        }
        // C02 typed -> bytes
        if outcome != "refused" && outcome != "lossy" && *b != spec_bytes {
            out.push(Finding { stage: "layout-encode", field: first_byte_diff(&spec_bytes, b), detail: format!("specification {:?} code {:?}", spec_bytes, b) });
        }
        // C02 "byte 2 of every frame is the request id": the request id setter changes that byte and nothing else
        if outcome == "ok" && in_domain && b.len() >= 4 {
            use insim::WithRequestId;
            let rq = b[2].wrapping_add(101);
            let p2: insim::Packet = p.clone().with_request_id(rq).into();
            match try_encode(mode, &p2) {
                Ok(b2) => {
                    let mut want = b.clone();
                    want[2] = rq;
                    if b2 != want {
                        out.push(Finding { stage: "layout-encode", field: format!("with_request_id:{}", first_byte_diff(&want, &b2)), detail: format!("with_request_id({rq}) gives {:?}, expected {:?}", b2, want) });
                    }
                },
                Err(e) => out.push(Finding { stage: "layout-encode", field: "with_request_id".into(), detail: format!("with_request_id({rq}) then encode: {e}") }),
            }
        }
    }
    if outcome == "ok" && in_domain {
        // C02 bytes -> typed: decode the specification's frame
        let (verdict, p3) = standalone(mode, &spec_bytes);
        match (&verdict, p3) {
            (Verdict::Pkt { consumed, .. }, Some(p3)) => {
                if *consumed != spec_bytes.len() {
                    out.push(Finding { stage: "layout-decode", field: "consumed".into(), detail: format!("consumed {consumed} of {}", spec_bytes.len()) });
                }
                let got = canon(&p3.to_abs());
                let want = canon(&json!({"kind": kind, "rec": rec}));
                if let Some(diff) = first_diff(&want, &got, "") {
                    out.push(Finding { stage: "layout-decode", field: field_of(&diff), detail: format!("decoding the specification's frame: {diff} (specification vs code)") });
                }
                match try_encode(mode, &p3) {
                    Ok(b3) if b3 == spec_bytes => {},
                    Ok(b3) => out.push(Finding { stage: "layout-reencode", field: first_byte_diff(&spec_bytes, &b3), detail: format!("decode then encode of the specification's frame gives {:?}", b3) }),
                    Err(e) => out.push(Finding { stage: "reencode-fails", field: e.clone(), detail: format!("re-encoding the packet decoded from the specification's frame: {e}") }),
                }
            },
            (other, _) => out.push(Finding { stage: "layout-decode", field: "decode".into(), detail: format!("the specification's frame does not decode: {:?}", other) }),
        }
    }
    if outcome == "any" && !spec_bytes.is_empty() {
        // a frame that is legal by its size but beyond a protocol maximum: the decoder may refuse it, but if it returns a
        // packet, that packet was "obtained by decoding" and must re-encode - to the same frame - without aborting (C03)
        if let (Verdict::Pkt { consumed, .. }, Some(p3)) = standalone(mode, &spec_bytes) {
            if consumed != spec_bytes.len() {
                out.push(Finding { stage: "malformed-frame", field: "consumed".into(), detail: format!("decoding a {}-byte frame consumed {consumed}", spec_bytes.len()) });
            }
            match try_encode(mode, &p3) {
                Ok(b3) if b3 == spec_bytes => {},
                Ok(b3) => out.push(Finding { stage: "reencode-fails", field: first_byte_diff(&spec_bytes, &b3), detail: format!("a decoded {}-byte frame re-encodes to {} different bytes", spec_bytes.len(), b3.len()) }),
                // an error is a loud refusal (IS_MAL / IS_IPB refuse more than 120 entries although the decoder reads them); an abort is not
                Err(e) if e.starts_with("err") => {},
                Err(e) => out.push(Finding { stage: "reencode-fails", field: e.clone(), detail: format!("re-encoding the packet decoded from a legal {}-byte frame: {e}", spec_bytes.len()) }),
            }
        }
    }
    Ok(out)
}

/// wire-replay --in vectors.ndjson : prints one JSON line per finding and a summary
pub fn cmd_wire_replay(a: &HashMap<String, String>) -> i32 {
    let path = a.get("in").expect("--in");
    let f = std::fs::File::open(path).expect("open vectors");
    let out = std::io::stdout();
    let mut out = out.lock();
    let (mut n, mut clean, mut bad, mut build_err) = (0u64, 0u64, 0u64, 0u64);
    let mut per_stage: HashMap<String, u64> = HashMap::new();
    for line in std::io::BufReader::new(f).lines() {
        let line = line.unwrap();
        if line.trim().is_empty() {
            continue;
        }
        let v: Value = serde_json::from_str(&line).expect("vector json");
        n += 1;
        match check_vector(&v) {
            Err(e) => {
                build_err += 1;
                let _ = writeln!(out, "{}", json!({"build_error": e, "vector": v}));
            },
            Ok(fs) if fs.is_empty() => clean += 1,
            Ok(fs) => {
                bad += 1;
                for f in fs {
                    *per_stage.entry(f.stage.to_string()).or_default() += 1;
                    let _ = writeln!(out, "{}", json!({"finding": {"stage": f.stage, "field": f.field, "detail": f.detail}, "kind": v["kind"], "mode": v["mode"], "vector": v}));
                }
            },
        }
    }
    let _ = writeln!(out, "{}", json!({"summary": {"vectors": n, "clean": clean, "with_findings": bad, "build_errors": build_err, "per_stage": per_stage}}));
    0
}

// ------------------------------------------------------------------------------------ impl -> spec
use rand::{rngs::StdRng, Rng, SeedableRng};

fn dec_event(mode: &str, buf: &[u8], tag: &str) -> Value {
    use bytes::BytesMut;
    use insim::net::Codec;
    let codec = Codec::new(crate::frames::mode_of(mode));
    let mut b = BytesMut::from(buf);
    let before = b.len();
    let r = std::panic::catch_unwind(std::panic::AssertUnwindSafe(|| codec.decode(&mut b)));
    let res = match &r {
        Err(_) => "panic",
        Ok(Ok(None)) => "none",
        Ok(Ok(Some(_))) => "pkt",
        Ok(Err(insim::Error::IO { .. })) => "frame_err",
        Ok(Err(_)) => "err",
    };
    let after = b.len();
    // whatever remains must be the untouched suffix of the input
    let rest_ok = after <= before && b[..] == buf[before - after..];
    // a packet that was decoded must never make the encoder abort (C03)
    let mut reenc = "n/a";
    if let Ok(Ok(Some(p))) = &r {
        reenc = match try_encode(mode, p) {
            Ok(_) => "ok",
            Err(e) if e == "panic" => "panic",
            Err(_) => "err",
        };
    }
    // "never reads beyond the announced frame": what follows the frame in the buffer must not influence the outcome -
    // decode the removed frame on its own and compare class and packet
    let mut ctx_ok = true;
    if (res == "pkt" || res == "err") && after > 0 && after < before {
        let frame = &buf[..before - after];
        let mut alone = BytesMut::from(frame);
        let r2 = std::panic::catch_unwind(std::panic::AssertUnwindSafe(|| codec.decode(&mut alone)));
        ctx_ok = match (&r, &r2) {
            (Ok(Ok(Some(p))), Ok(Ok(Some(q)))) => format!("{:?}", p) == format!("{:?}", q),
            (Ok(Err(insim::Error::IO { .. })), _) | (_, Ok(Err(insim::Error::IO { .. }))) => false,
            (Ok(Err(_)), Ok(Err(_))) => true,
            _ => false,
        };
    }
    json!({"ev": "Dec", "mode": mode, "sb": buf.first().copied().unwrap_or(0), "len": before, "res": res, "after": after,
           "rest_ok": rest_ok, "ctx_ok": ctx_ok, "reenc": reenc, "tag": tag, "buf": buf})
}

/// wire-fuzz --vectors v.ndjson --out trace.ndjson --seed n --events k
pub fn cmd_wire_fuzz(a: &HashMap<String, String>) -> i32 {
    let vpath = a.get("vectors").expect("--vectors");
    let out = a.get("out").expect("--out");
    let seed: u64 = a.get("seed").and_then(|s| s.parse().ok()).unwrap_or(1);
    let events: usize = a.get("events").and_then(|s| s.parse().ok()).unwrap_or(20000);
    let mut rng = StdRng::seed_from_u64(seed);
    let mut frames: Vec<(String, Vec<u8>)> = Vec::new();
    let mut bases: Vec<(String, String, Vec<u8>)> = Vec::new();
    let mut seen_kind = std::collections::HashSet::new();
    for line in std::io::BufReader::new(std::fs::File::open(vpath).expect("vectors")).lines() {
        let v: Value = serde_json::from_str(&line.unwrap()).expect("json");
        if v["outcome"] == "ok" {
            let mode = v["mode"].as_str().unwrap().to_string();
            let b = bytes_of(&v["bytes"]);
            let key = format!("{}{}", v["kind"].as_str().unwrap(), mode);
            if seen_kind.insert(key) {
                bases.push((v["kind"].as_str().unwrap().to_string(), mode.clone(), b.clone()));
            }
            frames.push((mode, b));
        }
    }
    let mut w = std::io::BufWriter::new(std::fs::File::create(out).expect("create"));
    let mut n = 0usize;
    // 1. header sweep: every (mode, size byte) x buffer length class x all 256 type bytes
    for mode in ["C", "U"] {
        for sb in 0..=255u32 {
            let nn = if mode == "C" { sb * 4 } else { sb } as usize;
            let mut lens: Vec<usize> = vec![0, 1, 3, 4, nn.saturating_sub(1), nn, nn + 4, 1024];
            lens.sort();
            lens.dedup();
            for len in lens {
                let mut seen: Vec<(String, usize)> = Vec::new();
                let mut worst: Option<Value> = None;
                for t in 0..=255u32 {
                    for fill in [0u8, 1, 0xff] {
                        let mut buf = vec![fill; len];
                        if len > 0 {
                            buf[0] = sb as u8;
                        }
                        if len > 1 {
                            buf[1] = t as u8;
                        }
                        let e = dec_event(mode, &buf, "hdr");
                        let k = (e["res"].as_str().unwrap().to_string(), e["after"].as_u64().unwrap() as usize);
                        if !e["rest_ok"].as_bool().unwrap() || !e["ctx_ok"].as_bool().unwrap() || e["reenc"] == "panic" {
                            worst = Some(e.clone());
                        }
                        if !seen.contains(&k) {
                            seen.push(k);
                        }
                    }
                }
                if let Some(e) = worst {
                    let _ = writeln!(w, "{}", e);
                    n += 1;
                }
                let seen_j: Vec<Value> = seen.iter().map(|(r, a)| json!({"res": r, "after": a})).collect();
                let _ = writeln!(w, "{}", json!({"ev": "Hdr", "mode": mode, "sb": sb, "len": len, "seen": seen_j, "cases": 768}));
                n += 1;
            }
        }
    }
    // 2. every byte of one valid frame of every kind takes all 256 values
    for (kind, mode, base) in bases.iter() {
        for off in 2..base.len() {
            let mut seen: Vec<(String, usize)> = Vec::new();
            for val in 0..=255u32 {
                let mut buf = base.clone();
                buf[off] = val as u8;
                let e = dec_event(mode, &buf, "byte-sweep");
                let k = (e["res"].as_str().unwrap().to_string(), e["after"].as_u64().unwrap() as usize);
                if e["res"] == "panic" || e["reenc"] == "panic" || !e["rest_ok"].as_bool().unwrap() {
                    let _ = writeln!(w, "{}", e);
                    n += 1;
                }
                if !seen.contains(&k) {
                    seen.push(k);
                }
            }
            let seen_j: Vec<Value> = seen.iter().map(|(r, a)| json!({"res": r, "after": a})).collect();
            let _ = writeln!(w, "{}", json!({"ev": "Hdr", "mode": mode, "sb": base[0], "len": base.len(), "seen": seen_j, "kind": kind, "offset": off, "cases": 256}));
            n += 1;
        }
    }
    // 2a. hostile text: multi-byte patterns (code page markers followed by a lone lead byte, carets at the end, a lead byte
    // before the NUL ...) written at every offset of one valid frame of every kind - text fields are parsed by hand-written
    // scanners whose corner cases need several specific bytes in a row
    {
        let patterns: [&[u8]; 16] = [
            b"^J\x94", b"^J\x94\0", b"^S\x81", b"^K\xfe", b"^H\x81\0", b"^J\xe0", b"^", b"^^", b"^^^C", b"\x81", b"\xff\xff\xff", b"^8^J\x82",
            b"^L^G^C^E^T^B", b"^J\x83^", b"^H\xa4\0\xa4", b"^C\xf8^",
        ];
        for (kind, mode, base) in bases.iter() {
            let mut seen: Vec<(String, usize)> = Vec::new();
            let mut cases = 0u64;
            for off in 3..base.len() {
                for pat in patterns.iter() {
                    // the pattern ends exactly at the end of the frame, or sits at this offset
                    for at in [off, base.len().saturating_sub(pat.len())] {
                        if at < 3 || at + pat.len() > base.len() {
                            continue;
                        }
                        let mut buf = base.clone();
                        buf[at..at + pat.len()].copy_from_slice(pat);
                        let e = dec_event(mode, &buf, "hostile-text");
                        cases += 1;
                        let k = (e["res"].as_str().unwrap().to_string(), e["after"].as_u64().unwrap() as usize);
                        if e["res"] == "panic" || e["reenc"] == "panic" || !e["rest_ok"].as_bool().unwrap() {
                            let _ = writeln!(w, "{}", e);
                            n += 1;
                        }
                        if !seen.contains(&k) {
                            seen.push(k);
                        }
                    }
                }
            }
            // a caret followed by every byte value (colour digits, code page letters, escape letters, everything else), at every
            // second offset: the hand-written caret scanners fall through to `unreachable!` for letters they list in one place
            // and not in another
            for off in (3..base.len().saturating_sub(2)).step_by(2) {
                for b in 0..=255u8 {
                    let mut buf = base.clone();
                    buf[off] = b'^';
                    buf[off + 1] = b;
                    if off + 2 < buf.len() && b % 2 == 1 {
                        buf[off + 2] = b'x';
                    }
                    let e = dec_event(mode, &buf, "caret-sweep");
                    cases += 1;
                    let k = (e["res"].as_str().unwrap().to_string(), e["after"].as_u64().unwrap() as usize);
                    if e["res"] == "panic" || e["reenc"] == "panic" || !e["rest_ok"].as_bool().unwrap() {
                        let _ = writeln!(w, "{}", e);
                        n += 1;
                    }
                    if !seen.contains(&k) {
                        seen.push(k);
                    }
                }
            }
            let seen_j: Vec<Value> = seen.iter().map(|(r, a)| json!({"res": r, "after": a})).collect();
            let _ = writeln!(w, "{}", json!({"ev": "Hdr", "mode": mode, "sb": base[0], "len": base.len(), "seen": seen_j, "kind": kind, "offset": -1, "cases": cases}));
            n += 1;
        }
    }
    // 2b. every vector's frame with another valid frame behind it: the outcome must not depend on what follows
    for (k, (mode, f)) in frames.iter().enumerate() {
        let (_, g) = &frames[(k * 7 + 3) % frames.len()];
        if frames[(k * 7 + 3) % frames.len()].0 != *mode {
            continue;
        }
        let mut buf = f.clone();
        buf.extend_from_slice(g);
        let e = dec_event(mode, &buf, "followed");
        let _ = writeln!(w, "{}", e);
        n += 1;
        // ... and a frame announced shorter than its kind's layout, followed by a valid frame
        if f.len() >= 12 && k % 5 == 0 {
            let cut = 4 * (1 + k % ((f.len() / 4) - 1));
            let mut t = f[..cut].to_vec();
            t[0] = crate::frames::size_byte(mode, cut);
            t.extend_from_slice(g);
            let e = dec_event(mode, &t, "short-announced");
            let _ = writeln!(w, "{}", e);
            n += 1;
        }
    }
    // 3. seeded mutations of valid frames and random buffers
    for _ in 0..events {
        let (mode, f) = &frames[rng.gen_range(0..frames.len())];
        let mut buf = f.clone();
        let tag = match rng.gen_range(0..8) {
            0 => {
                let i = rng.gen_range(0..buf.len());
                buf[i] ^= 1 << rng.gen_range(0..8);
                "bitflip"
            },
            1 => {
                let k = rng.gen_range(0..buf.len());
                buf.truncate(k);
                "truncate"
            },
            2 => {
                let (_, g) = &frames[rng.gen_range(0..frames.len())];
                buf.extend_from_slice(g);
                "two-frames"
            },
            3 => {
                buf[0] = rng.gen();
                "size-byte"
            },
            4 => {
                let k = rng.gen_range(1..6);
                for _ in 0..k {
                    let i = rng.gen_range(0..buf.len());
                    buf[i] = rng.gen();
                }
                "bytes"
            },
            5 => {
                let len = rng.gen_range(0..1100);
                buf = (0..len).map(|_| rng.gen()).collect();
                "random"
            },
            6 => {
                let extra = rng.gen_range(1..9);
                for _ in 0..extra {
                    buf.push(rng.gen());
                }
                "extend"
            },
            _ => "valid",
        };
        let _ = writeln!(w, "{}", dec_event(mode, &buf, tag));
        n += 1;
    }
    println!("{}", json!({"events": n}));
    0
}

/// wire-cross --vectors v.ndjson --out trace.ndjson --seed n --per k
/// records built by recombining the field values of the specification's vectors (pairwise and
/// higher interactions between fields), encoded by the real codec: Enc events for Trace_Wire.
pub fn cmd_wire_cross(a: &HashMap<String, String>) -> i32 {
    let vpath = a.get("vectors").expect("--vectors");
    let out = a.get("out").expect("--out");
    let seed: u64 = a.get("seed").and_then(|s| s.parse().ok()).unwrap_or(1);
    let per: usize = a.get("per").and_then(|s| s.parse().ok()).unwrap_or(40);
    let mut rng = StdRng::seed_from_u64(seed);
    let mut by_kind: std::collections::BTreeMap<String, Vec<Value>> = Default::default();
    for line in std::io::BufReader::new(std::fs::File::open(vpath).expect("vectors")).lines() {
        let v: Value = serde_json::from_str(&line.unwrap()).expect("json");
        if v["domain"] == "in" && v["mode"] == "C" {
            by_kind.entry(v["kind"].as_str().unwrap().to_string()).or_default().push(v["rec"].clone());
        }
    }
    let mut w = std::io::BufWriter::new(std::fs::File::create(out).expect("create"));
    let mut n = 0usize;
    for (kind, recs) in by_kind.iter() {
        for _ in 0..per {
            let mut rec = recs[0].clone();
            if let Value::Object(m) = &mut rec {
                let keys: Vec<String> = m.keys().cloned().collect();
                for k in keys {
                    if kind == "Mso" && (k == "textstart" || k == "msg") {
                        continue; // textstart must stay inside msg
                    }
                    let donor = &recs[rng.gen_range(0..recs.len())];
                    if let Some(x) = donor.get(&k) {
                        let _ = m.insert(k, x.clone());
                    }
                }
            }
            let p = match insim::Packet::from_abs(&json!({"kind": kind, "rec": rec})) {
                Ok(p) => p,
                Err(_) => continue,
            };
            for mode in ["C", "U"] {
                let (res, bytes) = match try_encode(mode, &p) {
                    Ok(b) => ("ok", b),
                    Err(e) if e == "panic" => ("panic", vec![]),
                    Err(_) => ("err", vec![]),
                };
                let _ = writeln!(w, "{}", json!({"ev": "Enc", "kind": kind, "mode": mode, "rec": rec, "res": res, "bytes": bytes}));
                n += 1;
            }
        }
    }
    // durations are dense: every time field is swept millisecond by millisecond over a window (a conversion that is right at
    // round values and boundaries can still be one wire unit off in between)
    let dense: u64 = a.get("dense").and_then(|s| s.parse().ok()).unwrap_or(600);
    let mut swept = 0usize;
    for (kind, recs) in by_kind.iter() {
        let base = recs[0].clone();
        let keys: Vec<String> = match &base {
            Value::Object(m) => m.iter().filter(|(_, x)| x.get("ms").is_some() && x.get("ns").is_some()).map(|(k, _)| k.clone()).collect(),
            _ => vec![],
        };
        for k in keys {
            let start: u64 = [0u64, 250, rng.gen_range(1000..60_000), rng.gen_range(60_000..600_000)][swept % 4];
            swept += 1;
            for ms in start..start + dense {
                let mut rec = base.clone();
                rec[&k] = json!({"ms": [ms % 65536, (ms / 65536) % 65536, 0, 0], "ns": 0});
                let p = match insim::Packet::from_abs(&json!({"kind": kind, "rec": rec})) {
                    Ok(p) => p,
                    Err(_) => continue,
                };
                let mode = if ms % 2 == 0 { "C" } else { "U" };
                let (res, bytes) = match try_encode(mode, &p) {
                    Ok(b) => ("ok", b),
                    Err(e) if e == "panic" => ("panic", vec![]),
                    Err(_) => ("err", vec![]),
                };
                // ... and what the decoder makes of that frame's time field (Trace_Wire: the duration the wire value stands for)
                let back = match (res, crate::frames::standalone(mode, &bytes)) {
                    ("ok", (crate::frames::Verdict::Pkt { .. }, Some(p2))) => p2.to_abs()["rec"][&k].clone(),
                    _ => json!({"ms": [0, 0, 0, 0], "ns": -1}),
                };
                let _ = writeln!(w, "{}", json!({"ev": "Enc", "kind": kind, "mode": mode, "rec": rec, "res": res, "bytes": bytes, "durkey": k, "back_dur": back}));
                n += 1;
            }
        }
    }
    println!("{}", json!({"events": n, "duration_fields_swept": swept}));
    0
}

/// wire-dec --in case.json : run the real decoder on one stored buffer, print its Dec event
pub fn cmd_wire_dec(a: &HashMap<String, String>) -> i32 {
    let v: Value = serde_json::from_str(&std::fs::read_to_string(a.get("in").expect("--in")).expect("read")).expect("json");
    let buf = bytes_of(&v["buf"]);
    println!("{}", dec_event(v["mode"].as_str().unwrap_or("C"), &buf, "replay"));
    0
}
