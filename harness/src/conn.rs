//! Connection-level conformance: scripted in-memory transports (blocking and tokio),
//! the spec -> impl replay executor for LfsConn behaviours, and the randomized
//! driver that records impl -> spec traces.
use std::{
    collections::VecDeque,
    io,
    pin::Pin,
    sync::{Arc, Mutex},
    task::{Context, Poll},
};

use rand::{rngs::StdRng, Rng, SeedableRng};
use serde_json::{json, Value};
use tokio::io::{AsyncRead, AsyncWrite, ReadBuf};

use crate::frames::{is_keepalive_frame, standalone, try_encode, Pool, Verdict};

#[derive(Clone, Debug)]
pub struct Step {
    pub a: String,
    pub n: i64,
    pub s: String,
}

#[derive(Debug)]
pub struct FrameInfo {
    pub bytes: Vec<u8>,
    pub cls: String,
    pub verdict: Verdict,
    pub matched: bool,
}

/// How the random transport behaves (trace mode).
#[derive(Debug, Clone)]
pub struct RandomCfg {
    pub seg: u8,        // 0: 1 byte, 1: <=3 bytes, 2: random small, 3: random up to offered, 4: everything, 5: mixed
    pub p_err: f64,     // probability of a transient read error
    pub p_pend: f64,    // tokio: probability of Pending on a poll
    pub wseg: u8,       // write acceptance: 0 one byte, 1 random, 2 everything
    pub frames_left: usize,
    pub max_len: usize,
    pub classes: Vec<String>,
    pub close_at_end: bool,
    /// deterministic sweeps: the frames to send, in order (bytes, class decided from the bytes by the harness)
    pub fixed: Option<VecDeque<(Vec<u8>, String)>>,
    /// seg = 6: every transport read delivers exactly this many bytes (if available): on a long pre-filled
    /// stream the reads keep ending in the middle of a frame for many kilobytes
    pub chunk: usize,
    /// frames the peer sends in one go while the reader is blocked (0 = small random bursts)
    pub burst: usize,
}

#[derive(Debug)]
pub struct Shared {
    pub mode: String,
    pub pool: Arc<Pool>,
    pub scripted: bool,
    pub steps: Vec<Step>,
    pub i: usize,
    pub incoming: VecDeque<u8>,
    pub eof: bool,
    pub credit: usize,
    pub frames: Vec<FrameInfo>,
    pub counter: usize,
    pub cur_out: Option<(Vec<u8>, usize)>,
    pub user_frame: Option<Vec<u8>>,
    pub out: Vec<u8>,
    pub mismatch: Option<String>,
    pub skipped: Option<String>,
    // trace mode
    pub events: Vec<Value>,
    pub rng: StdRng,
    pub rcfg: RandomCfg,
    pub in_user_write: bool,
    pub eof_reads: usize,
    // scripted queueing transport (the websocket write path): bytes accepted by poll_write while the socket is blocked
    pub pend_again: bool,
    pub wfailed: bool,
    pub resumed: bool,
    pub wsq: bool,
    pub blocked: bool,
    pub queue: Vec<u8>,
}

/// the transient errors a socket read can report (never Interrupted: retrying that one is legitimate); a blocking socket
/// with a read timeout reports WouldBlock / TimedOut
fn transient_error(k: usize, is_async: bool) -> io::Error {
    let kinds: &[io::ErrorKind] = if is_async {
        &[io::ErrorKind::ConnectionReset, io::ErrorKind::TimedOut, io::ErrorKind::Other, io::ErrorKind::BrokenPipe]
    } else {
        &[io::ErrorKind::ConnectionReset, io::ErrorKind::WouldBlock, io::ErrorKind::TimedOut, io::ErrorKind::Other, io::ErrorKind::BrokenPipe]
    };
    io::Error::new(kinds[k % kinds.len()], "scripted transient error")
}

impl std::fmt::Debug for Pool {
    fn fmt(&self, f: &mut std::fmt::Formatter<'_>) -> std::fmt::Result {
        write!(f, "Pool({})", self.mode)
    }
}

impl Shared {
    pub fn new(mode: &str, pool: Arc<Pool>, scripted: bool, steps: Vec<Step>, seed: u64, rcfg: RandomCfg) -> Self {
        Shared {
            mode: mode.to_string(),
            pool,
            scripted,
            steps,
            i: 0,
            incoming: VecDeque::new(),
            eof: false,
            credit: 0,
            frames: Vec::new(),
            counter: seed as usize % 1000,
            cur_out: None,
            user_frame: None,
            out: Vec::new(),
            mismatch: None,
            skipped: None,
            events: Vec::new(),
            rng: StdRng::seed_from_u64(seed),
            rcfg,
            in_user_write: false,
            eof_reads: 0,
            pend_again: false,
            wfailed: false,
            resumed: false,
            wsq: false,
            blocked: false,
            queue: Vec::new(),
        }
    }

    fn fail(&mut self, msg: String) {
        if self.mismatch.is_none() {
            self.mismatch = Some(msg);
        }
    }

    /// The peer produces one frame of the given abstract length and class.
    pub fn peer_send(&mut self, len: usize, cls: &str) -> bool {
        self.counter += 1;
        let f = match self.pool.frame(len, cls, self.counter) {
            Some(f) => f,
            None => {
                self.skipped = Some(format!("no concrete frame for len {len} class {cls}"));
                return false;
            },
        };
        self.peer_send_bytes(f, cls)
    }

    /// Only the first k bytes of a (valid) frame of length len arrive, then the stream ends.
    pub fn peer_truncated(&mut self, len: usize, k: usize) -> bool {
        let before = self.incoming.len();
        if !self.peer_send(len, "pkt") {
            return false;
        }
        let have = self.incoming.len() - before;
        for _ in 0..have.saturating_sub(k) {
            let _ = self.incoming.pop_back();
        }
        if let Some(f) = self.frames.last_mut() {
            f.cls = "partial".to_string();
            f.matched = true; // never delivered
        }
        self.eof = true;
        true
    }

    /// The peer produces exactly these bytes, which the harness classified as `cls`.
    pub fn peer_send_bytes(&mut self, f: Vec<u8>, cls: &str) -> bool {
        let (verdict, _) = standalone(&self.mode, &f);
        // the connection-level oracle is what the stand-alone codec says about this very frame
        let ok = match (cls, &verdict) {
            // the class of a frame is what the codec makes of it; how many bytes it removes is part of what is being checked
            // (a codec that leaves an undecodable frame in the buffer must show up as a mismatch, not as a skipped behaviour)
            // frames of these classes are built by the encoder from typed packets: they are valid by construction, and a decoder
            // that refuses one of them must show up as a mismatch of the replay / an unexplained event, never as a skipped frame
            ("ka" | "tiny" | "pkt" | "ver9" | "verX", _) => true,
            ("bad", Verdict::DecodeErr { .. }) => true,
            ("short", Verdict::FrameErr) => true,
            _ => false,
        };
        if !ok {
            self.skipped = Some(format!("stand-alone codec disagrees with class {cls} for frame {:?}: {:?}", f, verdict));
            return false;
        }
        self.incoming.extend(f.iter().copied());
        self.frames.push(FrameInfo { bytes: f, cls: cls.to_string(), verdict, matched: false });
        true
    }

    fn apply_peer_step(&mut self, st: &Step) -> bool {
        match st.a.as_str() {
            "send" => {
                let _ = self.peer_send(st.n as usize, &st.s);
                true
            },
            "close" => {
                self.eof = true;
                true
            },
            // websocket behaviours on the scripted queueing transport: message boundaries do not matter to the connection;
            // the socket stops / resumes accepting data
            "wsmsg" => true,
            "wsblock" => {
                self.blocked = true;
                true
            },
            "wsunblock" => {
                self.blocked = false;
                true
            },
            "sendp" => {
                // the peer dies inside a frame: only the first k bytes of it arrive, then the stream ends
                let (len, k) = ((st.n / 100) as usize, (st.n % 100) as usize);
                self.peer_truncated(len, k);
                true
            },
            _ => false,
        }
    }

    /// Advance over peer steps; return the next step that concerns the connection.
    fn next_io_step(&mut self) -> Option<Step> {
        loop {
            let st = self.steps.get(self.i)?.clone();
            if self.apply_peer_step(&st) {
                self.i += 1;
                if self.skipped.is_some() {
                    return None;
                }
                continue;
            }
            return Some(st);
        }
    }

    fn take_incoming(&mut self, n: usize, buf: &mut [u8]) {
        for b in buf.iter_mut().take(n) {
            *b = self.incoming.pop_front().expect("harness: incoming underflow");
        }
    }

    // ---------------------------------------------------------------- scripted
    /// Ok(n) data / Ok(0) eof, Err(would-block) = Pending, other Err = transport error
    fn scripted_read(&mut self, buf: &mut [u8], is_async: bool) -> io::Result<usize> {
        if self.mismatch.is_some() || self.skipped.is_some() {
            return Err(io::Error::new(io::ErrorKind::Other, "conformance-abort"));
        }
        let offered = buf.len();
        if self.credit > 0 && offered > 0 {
            let n = self.credit.min(offered).min(self.incoming.len());
            self.take_incoming(n, buf);
            self.credit -= n;
            return Ok(n);
        }
        let st = match self.next_io_step() {
            Some(s) => s,
            None => {
                if self.skipped.is_none() {
                    self.fail("the code reads from the transport after the model's behaviour ended".into());
                }
                return Err(io::Error::new(io::ErrorKind::Other, "conformance-abort"));
            },
        };
        match st.a.as_str() {
            "fill" => {
                let k = st.n as usize;
                if self.incoming.len() < k {
                    self.fail(format!("harness: model delivers {k} bytes but only {} are queued", self.incoming.len()));
                    return Err(io::Error::new(io::ErrorKind::Other, "conformance-abort"));
                }
                if offered == 0 {
                    self.fail("the code offers a zero-length slice to the transport".into());
                    return Err(io::Error::new(io::ErrorKind::Other, "conformance-abort"));
                }
                let n = k.min(offered);
                self.credit += k - n;
                self.take_incoming(n, buf);
                self.i += 1;
                Ok(n)
            },
            "err" => {
                self.i += 1;
                Err(transient_error(self.i, is_async))
            },
            "result" if st.s == "disconnected" => {
                // end of stream: a connection that keeps reading instead of reporting it would spin for ever
                self.eof_reads += 1;
                if self.eof_reads > 3 {
                    self.fail("the code keeps reading from the transport after it reported end of stream".into());
                    return Err(io::Error::new(io::ErrorKind::Other, "conformance-abort"));
                }
                Ok(0)
            },
            "pend" if is_async && st.s == "r" => {
                self.i += 1;
                Err(io::Error::new(io::ErrorKind::WouldBlock, "pending"))
            },
            "timeout" | "cancel" if is_async => Err(io::Error::new(io::ErrorKind::WouldBlock, "pending")),
            // the driver has advanced the clock: tokio's timeout polls the read once more before it looks at the timer
            "result" if is_async && st.s == "timeout" => Err(io::Error::new(io::ErrorKind::WouldBlock, "pending")),
            other => {
                self.fail(format!(
                    "the code reads from the transport where the model's next step is {other}({},{}) [step {}]",
                    st.n, st.s, self.i
                ));
                Err(io::Error::new(io::ErrorKind::Other, "conformance-abort"))
            },
        }
    }

    fn scripted_write(&mut self, buf: &[u8], is_async: bool) -> io::Result<usize> {
        if self.mismatch.is_some() || self.skipped.is_some() {
            return Err(io::Error::new(io::ErrorKind::Other, "conformance-abort"));
        }
        let st = match self.next_io_step() {
            Some(s) => s,
            None => {
                self.fail(format!("the code writes {:?} after the model's behaviour ended", buf));
                return Err(io::Error::new(io::ErrorKind::Other, "conformance-abort"));
            },
        };
        if self.wsq && self.blocked {
            // like the websocket library: the message is queued, nothing leaves until a flush finds the socket ready
            self.queue.extend_from_slice(buf);
            return Ok(buf.len());
        }
        match st.a.as_str() {
            "pongw" | "wacc" => {
                let k = st.n as usize;
                if self.cur_out.is_none() {
                    let exp = if st.a == "pongw" {
                        self.pool.keepalive()
                    } else {
                        self.user_frame.take().unwrap_or_default()
                    };
                    self.cur_out = Some((exp, 0));
                }
                let (exp, pos) = self.cur_out.clone().unwrap();
                if buf.len() < k {
                    self.fail(format!("the code offers {} bytes where the model's transport accepts {k}", buf.len()));
                    return Err(io::Error::new(io::ErrorKind::Other, "conformance-abort"));
                }
                if pos + k > exp.len() || buf[..k] != exp[pos..pos + k] {
                    self.fail(format!(
                        "outgoing bytes differ: the code offers {:?}, expected {:?} (frame {:?} from offset {pos})",
                        &buf[..k],
                        &exp[pos..(pos + k).min(exp.len())],
                        exp
                    ));
                    return Err(io::Error::new(io::ErrorKind::Other, "conformance-abort"));
                }
                self.out.extend_from_slice(&buf[..k]);
                self.cur_out = if pos + k == exp.len() { None } else { Some((exp, pos + k)) };
                self.i += 1;
                Ok(k)
            },
            "pend" if is_async && st.s == "w" => {
                // not ready on two consecutive polls (time passes between them: see the replay driver), one model step
                if !self.pend_again {
                    self.pend_again = true;
                } else {
                    self.pend_again = false;
                    self.i += 1;
                }
                Err(io::Error::new(io::ErrorKind::WouldBlock, "pending"))
            },
            "pongerr" => {
                // the transport fails this write of the keep-alive reply
                self.i += 1;
                let kinds = [io::ErrorKind::BrokenPipe, io::ErrorKind::ConnectionReset, io::ErrorKind::TimedOut];
                Err(io::Error::new(kinds[self.i % kinds.len()], "scripted transient error"))
            },
            "wfail" => {
                // the transport fails this write of a user frame (LfsConn.WriteFail): time limit, not ready, reset
                self.i += 1;
                self.wfailed = true;
                let kinds: &[io::ErrorKind] = if is_async {
                    &[io::ErrorKind::TimedOut, io::ErrorKind::BrokenPipe, io::ErrorKind::ConnectionReset]
                } else {
                    &[io::ErrorKind::WouldBlock, io::ErrorKind::TimedOut, io::ErrorKind::BrokenPipe]
                };
                Err(io::Error::new(kinds[(self.i + self.counter) % kinds.len()], "scripted write failure"))
            },
            // an implementation that, instead of reporting the failure, carries on with the REST of the frame keeps the frame
            // contiguous: tolerated (the model's write() reports the error); starting the frame again is not
            "werr"
                if self.wfailed
                    && match (&self.cur_out, &self.user_frame) {
                        (Some((exp, pos)), _) => buf[..] == exp[*pos..],
                        (None, Some(frame)) => buf[..] == frame[..],
                        _ => false,
                    } =>
            {
                self.out.extend_from_slice(buf);
                self.cur_out = None;
                self.resumed = true;
                Ok(buf.len())
            },
            "cancel" if is_async => Err(io::Error::new(io::ErrorKind::WouldBlock, "pending")),
            other => {
                self.fail(format!(
                    "the code writes {:?} to the transport where the model's next step is {other}({},{}) [step {}]",
                    buf, st.n, st.s, self.i
                ));
                Err(io::Error::new(io::ErrorKind::Other, "conformance-abort"))
            },
        }
    }

    /// poll_flush of the scripted queueing transport: Pending while the socket is blocked (the model's "pend w" or a
    /// cancellation), otherwise everything queued leaves - which is when the model's transport accepts those frames
    fn scripted_flush(&mut self) -> io::Result<()> {
        if !self.wsq || self.mismatch.is_some() || self.skipped.is_some() {
            return Ok(());
        }
        if self.queue.is_empty() && !self.blocked {
            return Ok(());
        }
        let st = match self.next_io_step() {
            Some(s) => s,
            None => {
                if self.queue.is_empty() {
                    return Ok(());
                }
                self.fail("the code flushes queued bytes after the model's behaviour ended".into());
                return Err(io::Error::new(io::ErrorKind::Other, "conformance-abort"));
            },
        };
        if self.blocked {
            if self.queue.is_empty() {
                return Ok(());
            }
            return match st.a.as_str() {
                "pend" if st.s == "w" => {
                    self.i += 1;
                    Err(io::Error::new(io::ErrorKind::WouldBlock, "pending"))
                },
                "cancel" => Err(io::Error::new(io::ErrorKind::WouldBlock, "pending")),
                other => {
                    self.fail(format!("the code waits for the blocked socket where the model's next step is {other}({},{}) [step {}]", st.n, st.s, self.i));
                    Err(io::Error::new(io::ErrorKind::Other, "conformance-abort"))
                },
            };
        }
        // not blocked: the queued frames leave now, one model step per frame
        while !self.queue.is_empty() {
            let st = match self.next_io_step() {
                Some(s) => s,
                None => {
                    self.fail("queued bytes leave after the model's behaviour ended".into());
                    return Err(io::Error::new(io::ErrorKind::Other, "conformance-abort"));
                },
            };
            if st.a == "pend" && st.s == "w" {
                // the transport is not ready for another reason: the queued bytes stay queued
                self.i += 1;
                return Err(io::Error::new(io::ErrorKind::WouldBlock, "pending"));
            }
            if st.a == "cancel" {
                return Err(io::Error::new(io::ErrorKind::WouldBlock, "pending"));
            }
            if st.a != "pongw" && st.a != "wacc" {
                self.fail(format!("queued bytes {:?} leave where the model's next step is {}({},{}) [step {}]", self.queue, st.a, st.n, st.s, self.i));
                return Err(io::Error::new(io::ErrorKind::Other, "conformance-abort"));
            }
            let k = (st.n as usize).min(self.queue.len());
            let bytes: Vec<u8> = self.queue.drain(..k).collect();
            let was = self.blocked;
            self.blocked = false;
            let r = self.scripted_write(&bytes, true);
            self.blocked = was;
            match r {
                Ok(n) if n == bytes.len() => {},
                Ok(_) => {
                    self.fail("harness: queued frame only partly accepted".into());
                    return Err(io::Error::new(io::ErrorKind::Other, "conformance-abort"));
                },
                Err(e) => return Err(e),
            }
        }
        Ok(())
    }

    // ---------------------------------------------------------------- random (trace mode)
    fn ev(&mut self, v: Value) {
        self.events.push(v);
    }

    fn random_peer_activity(&mut self) {
        // while the reader is blocked the peer sends one or more frames, or closes
        if self.rcfg.frames_left == 0 {
            if self.rcfg.close_at_end && !self.eof {
                if self.rcfg.fixed.is_none() && self.rng.gen_bool(0.5) {
                    // half of the sessions end with the peer dying in the middle of a frame
                    let lens: Vec<usize> = self.pool.by_len.keys().copied().filter(|l| *l >= 8 && *l <= 96).collect();
                    let len = lens[self.rng.gen_range(0..lens.len())];
                    let k = self.rng.gen_range(1..len);
                    if self.peer_truncated(len, k) {
                        self.ev(json!({"ev": "PeerTrunc", "n": len, "k": k}));
                        return;
                    }
                }
                self.eof = true;
                self.ev(json!({"ev": "PeerClose"}));
            }
            return;
        }
        let burst = if self.rcfg.burst > 0 { self.rcfg.burst } else { match self.rng.gen_range(0..4) {
            0 => 1,
            1 => 2,
            2 => self.rng.gen_range(1..6),
            _ => self.rng.gen_range(1..20),
        } };
        for _ in 0..burst {
            if self.rcfg.frames_left == 0 {
                break;
            }
            self.random_send();
        }
    }

    pub fn random_send(&mut self) {
        if let Some(q) = self.rcfg.fixed.as_mut() {
            if let Some((bytes, cls)) = q.pop_front() {
                let n = bytes.len();
                self.skipped = None;
                if self.peer_send_bytes(bytes, &cls) {
                    self.ev(json!({"ev": "PeerSend", "n": n, "s": cls}));
                } else {
                    let why = self.skipped.clone().unwrap_or_default();
                    self.ev(json!({"ev": "Skipped", "why": why}));
                }
            }
            self.rcfg.frames_left = self.rcfg.fixed.as_ref().map(|q| q.len()).unwrap_or(0);
            return;
        }
        for _attempt in 0..50 {
            let cls = self.rcfg.classes[self.rng.gen_range(0..self.rcfg.classes.len())].clone();
            let len = match cls.as_str() {
                "ka" | "tiny" | "short" => 4,
                "ver9" | "verX" => 20,
                "pkt" => {
                    let lens: Vec<usize> =
                        self.pool.by_len.keys().copied().filter(|l| *l <= self.rcfg.max_len).collect();
                    // now and then the largest frame there is (the mode's maximum, 1020 bytes compressed)
                    if self.rcfg.frames_left % 23 == 5 {
                        *lens.last().unwrap()
                    } else {
                        lens[self.rng.gen_range(0..lens.len())]
                    }
                },
                _ => {
                    let maxw = self.rcfg.max_len.min(if self.mode == "U" { 252 } else { 1020 }) / 4;
                    4 * self.rng.gen_range(1..=maxw)
                },
            };
            self.skipped = None;
            if self.peer_send(len, &cls) {
                self.rcfg.frames_left -= 1;
                self.ev(json!({"ev": "PeerSend", "n": len, "s": cls}));
                return;
            }
        }
        self.skipped = Some("could not produce a frame".into());
    }

    fn random_read(&mut self, buf: &mut [u8], is_async: bool) -> io::Result<usize> {
        let offered = buf.len();
        if is_async && self.rng.gen_bool(self.rcfg.p_pend) {
            self.ev(json!({"ev": "TRead", "kind": "pending", "offered": offered, "got": 0}));
            return Err(io::Error::new(io::ErrorKind::WouldBlock, "pending"));
        }
        if self.rng.gen_bool(self.rcfg.p_err) {
            self.ev(json!({"ev": "TRead", "kind": "err", "offered": offered, "got": 0}));
            let k = self.rng.gen_range(0..16usize);
            return Err(transient_error(k, is_async));
        }
        if self.incoming.is_empty() {
            self.random_peer_activity();
        }
        if self.incoming.is_empty() {
            if self.eof {
                self.eof_reads += 1;
                if self.eof_reads > 3 {
                    self.ev(json!({"ev": "Spin", "why": "the code keeps reading after end of stream"}));
                    return Err(io::Error::new(io::ErrorKind::Other, "conformance-abort"));
                }
                self.ev(json!({"ev": "TRead", "kind": "eof", "offered": offered, "got": 0}));
                return Ok(0);
            }
            // nothing to deliver and the stream is open: a blocking transport would block for ever,
            // report a transient error instead so that the session goes on
            self.ev(json!({"ev": "TRead", "kind": "err", "offered": offered, "got": 0}));
            return Err(io::Error::new(io::ErrorKind::ConnectionReset, "scripted transient error"));
        }
        if offered == 0 {
            // the connection handed the transport no room at all: a real stream would report 0 bytes read
            self.ev(json!({"ev": "TRead", "kind": "data", "offered": 0, "got": 0}));
            return Ok(0);
        }
        let avail = self.incoming.len().min(offered);
        let seg = if self.rcfg.seg == 5 { self.rng.gen_range(0..5) } else { self.rcfg.seg };
        let n = match seg {
            0 => 1,
            1 => self.rng.gen_range(1..=3.min(avail)),
            2 => self.rng.gen_range(1..=17.min(avail)),
            3 => self.rng.gen_range(1..=avail),
            6 => self.rcfg.chunk.max(1),
            _ => avail,
        }
        .min(avail)
        .max(1);
        self.take_incoming(n, buf);
        self.ev(json!({"ev": "TRead", "kind": "data", "offered": offered, "got": n}));
        Ok(n)
    }

    fn random_write(&mut self, buf: &[u8], is_async: bool) -> io::Result<usize> {
        let offered = buf.len();
        if is_async && self.rng.gen_bool(self.rcfg.p_pend) {
            self.ev(json!({"ev": "TWrite", "kind": "pending", "offered": offered, "accepted": 0}));
            return Err(io::Error::new(io::ErrorKind::WouldBlock, "pending"));
        }
        let k = match self.rcfg.wseg {
            0 => 1,
            1 => self.rng.gen_range(1..=offered.max(1)),
            _ => offered,
        }
        .min(offered);
        // byte-level check of what leaves: the expected frame is the keep-alive reply or the user's frame
        if self.cur_out.is_none() {
            // a new frame starts: the code offers it whole.  It must be the user's frame or a keep-alive
            // reply; whether a reply is *allowed* here is decided by the specification, not by the harness.
            let ka = self.pool.keepalive();
            let exp = if self.in_user_write && self.user_frame.as_deref() != Some(buf) && buf == &ka[..] {
                ka
            } else if self.in_user_write {
                self.user_frame.take().unwrap_or_default()
            } else {
                ka
            };
            self.cur_out = Some((exp, 0));
        }
        let (exp, pos) = self.cur_out.clone().unwrap();
        let good = pos + k <= exp.len() && buf[..k] == exp[pos..pos + k];
        self.out.extend_from_slice(&buf[..k]);
        self.cur_out = if pos + k >= exp.len() { None } else { Some((exp, pos + k)) };
        self.ev(json!({"ev": "TWrite", "kind": "ok", "offered": offered, "accepted": k, "bytes_ok": good}));
        Ok(k)
    }
}

// -------------------------------------------------------------------- transports
#[derive(Debug, Clone)]
pub struct BlockingTransport(pub Arc<Mutex<Shared>>);

impl io::Read for BlockingTransport {
    fn read(&mut self, buf: &mut [u8]) -> io::Result<usize> {
        let mut s = self.0.lock().unwrap();
        if s.scripted {
            s.scripted_read(buf, false)
        } else {
            s.random_read(buf, false)
        }
    }
}
impl io::Write for BlockingTransport {
    fn write(&mut self, buf: &[u8]) -> io::Result<usize> {
        let mut s = self.0.lock().unwrap();
        if s.scripted {
            s.scripted_write(buf, false)
        } else {
            s.random_write(buf, false)
        }
    }
    fn flush(&mut self) -> io::Result<()> {
        Ok(())
    }
}

#[derive(Debug, Clone)]
pub struct AsyncTransport(pub Arc<Mutex<Shared>>);

impl AsyncRead for AsyncTransport {
    fn poll_read(self: Pin<&mut Self>, _cx: &mut Context<'_>, buf: &mut ReadBuf<'_>) -> Poll<io::Result<()>> {
        let mut s = self.0.lock().unwrap();
        let mut tmp = vec![0u8; buf.remaining()];
        let r = if s.scripted { s.scripted_read(&mut tmp, true) } else { s.random_read(&mut tmp, true) };
        match r {
            Ok(n) => {
                buf.put_slice(&tmp[..n]);
                Poll::Ready(Ok(()))
            },
            Err(e) if e.kind() == io::ErrorKind::WouldBlock => Poll::Pending,
            Err(e) => Poll::Ready(Err(e)),
        }
    }
}
impl AsyncWrite for AsyncTransport {
    fn poll_write(self: Pin<&mut Self>, _cx: &mut Context<'_>, buf: &[u8]) -> Poll<io::Result<usize>> {
        let mut s = self.0.lock().unwrap();
        let r = if s.scripted { s.scripted_write(buf, true) } else { s.random_write(buf, true) };
        match r {
            Ok(n) => Poll::Ready(Ok(n)),
            Err(e) if e.kind() == io::ErrorKind::WouldBlock => Poll::Pending,
            Err(e) => Poll::Ready(Err(e)),
        }
    }
    fn poll_flush(self: Pin<&mut Self>, _cx: &mut Context<'_>) -> Poll<io::Result<()>> {
        let mut s = self.0.lock().unwrap();
        if !s.scripted {
            return Poll::Ready(Ok(()));
        }
        match s.scripted_flush() {
            Ok(()) => Poll::Ready(Ok(())),
            Err(e) if e.kind() == io::ErrorKind::WouldBlock => Poll::Pending,
            Err(e) => Poll::Ready(Err(e)),
        }
    }
    fn poll_shutdown(self: Pin<&mut Self>, _cx: &mut Context<'_>) -> Poll<io::Result<()>> {
        Poll::Ready(Ok(()))
    }
}

// -------------------------------------------------------------------- result classification
#[derive(Debug, Clone, PartialEq)]
pub struct Outcome {
    pub t: String,
    pub id: usize,
    pub ver: i64,
    pub detail: String,
}

/// Turn what read() returned into the model's vocabulary; packets are identified by
/// matching their Debug rendering with what the stand-alone codec said about each sent frame.
pub fn classify_result(sh: &mut Shared, r: Result<Result<insim::Packet, insim::Error>, ()>) -> Outcome {
    match r {
        Err(()) => Outcome { t: "panic".into(), id: 0, ver: -1, detail: "read() panicked".into() },
        Ok(Ok(p)) => {
            let dbg = format!("{:?}", p);
            let mut id = 0;
            for (k, f) in sh.frames.iter_mut().enumerate() {
                if !f.matched {
                    if let Verdict::Pkt { dbg: d, .. } = &f.verdict {
                        if *d == dbg {
                            f.matched = true;
                            id = k + 1;
                            break;
                        }
                    }
                }
            }
            Outcome { t: "pkt".into(), id, ver: -1, detail: dbg }
        },
        Ok(Err(e)) => match &e {
            insim::Error::Disconnected => Outcome { t: "disconnected".into(), id: 0, ver: -1, detail: String::new() },
            insim::Error::IncompatibleVersion(v) => {
                Outcome { t: "version_err".into(), id: 0, ver: *v as i64, detail: format!("{e}") }
            },
            insim::Error::BinRw(_) => Outcome { t: "decode_err".into(), id: 0, ver: -1, detail: format!("{e}") },
            insim::Error::Timeout(_) => Outcome { t: "timeout".into(), id: 0, ver: -1, detail: format!("{e}") },
            insim::Error::IO { kind, msg } => {
                if msg.contains("conformance-abort") {
                    Outcome { t: "abort".into(), id: 0, ver: -1, detail: msg.clone() }
                } else if msg.contains("scripted transient error") {
                    Outcome { t: "io_err".into(), id: 0, ver: -1, detail: msg.clone() }
                } else if *kind == io::ErrorKind::InvalidData {
                    Outcome { t: "frame_err".into(), id: 0, ver: -1, detail: msg.clone() }
                } else {
                    Outcome { t: "io_other".into(), id: 0, ver: -1, detail: format!("{kind:?} {msg}") }
                }
            },
            other => Outcome { t: "other_err".into(), id: 0, ver: -1, detail: format!("{other}") },
        },
    }
}

/// version carried by the concrete VER frame with this id (byte 18 of the frame)
fn frame_version(sh: &Shared, id: usize) -> i64 {
    sh.frames.get(id - 1).map(|f| if f.bytes.len() == 20 && f.bytes[1] == 2 { f.bytes[18] as i64 } else { -1 }).unwrap_or(-1)
}

fn check_result(sh: &mut Shared, st: &Step, got: &Outcome) -> Result<(), String> {
    let want_t = st.s.as_str();
    let want_id = st.n as usize;
    if got.t != want_t {
        return Err(format!("read() returned {} where the model returns {}(frame {}) | detail: {}", got.t, want_t, want_id, got.detail));
    }
    match want_t {
        "pkt" => {
            if got.id != want_id {
                return Err(format!(
                    "read() returned a packet that matches sent frame {} where the model delivers frame {} | detail: {}",
                    got.id, want_id, got.detail
                ));
            }
        },
        "version_err" => {
            let v = frame_version(sh, want_id);
            if got.ver != v {
                return Err(format!("incompatible-version error carries {} but the frame says {}", got.ver, v));
            }
        },
        _ => {},
    }
    Ok(())
}

// -------------------------------------------------------------------- replay (spec -> impl)
pub fn parse_steps(v: &Value) -> Vec<Step> {
    v.as_array()
        .map(|a| {
            a.iter()
                .map(|s| Step {
                    a: s["a"].as_str().unwrap_or("").to_string(),
                    n: s["n"].as_i64().unwrap_or(0),
                    s: s["s"].as_str().unwrap_or("").to_string(),
                })
                .collect()
        })
        .unwrap_or_default()
}

fn nocfg() -> RandomCfg {
    RandomCfg { seg: 4, p_err: 0.0, p_pend: 0.0, wseg: 2, frames_left: 0, max_len: 0, classes: vec![], close_at_end: false, fixed: None, chunk: 0, burst: 0 }
}

/// a user packet of the given encoded length
fn user_packet(pool: &Pool, len: usize, c: usize) -> Option<(insim::Packet, Vec<u8>)> {
    // built from the typed packet, not by decoding a frame with the decoder under test
    pool.typed(len, c)
}

/// LfsConn.DoHandshake: the IS_ISI a caller hands to Framed::handshake (any version field, any options) and its frame
fn handshake_isi(pool: &Pool, c: usize) -> Option<(insim::insim::Isi, Vec<u8>)> {
    use insim::insim::{Isi, IsiFlags};
    let isi = Isi {
        version: [9u8, 8, 0, 255, 10, 7][c % 6],
        udpport: [0u16, 29999, 65535][(c / 6) % 3],
        flags: if c % 2 == 0 { IsiFlags::empty() } else { IsiFlags::MCI | IsiFlags::LOCAL },
        prefix: if c % 5 == 0 { '!' } else { 0 as char },
        iname: ["probe", "", "sixteen-chars-xx"][(c / 2) % 3].into(),
        admin: ["", "pw"][(c / 3) % 2].into(),
        ..Default::default()
    };
    let enc = crate::frames::try_encode(&pool.mode, &insim::Packet::Isi(isi.clone())).ok()?;
    Some((isi, enc))
}

pub enum ReplayVerdict {
    Ok,
    Skipped(String),
    Mismatch(String),
}

pub fn replay_blocking(pool: Arc<Pool>, verify: bool, steps: Vec<Step>, seed: u64) -> ReplayVerdict {
    use insim::net::{blocking_impl::Framed, Codec};
    let mode = pool.mode.clone();
    let sh = Arc::new(Mutex::new(Shared::new(&mode, pool.clone(), true, steps.clone(), seed, nocfg())));
    let mut framed = Framed::new(Box::new(BlockingTransport(sh.clone())), Codec::new(crate::frames::mode_of(&mode)));
    // "disabled" is also what a connection is when nobody ever touched the switch: half of the gate-off runs leave it alone
    if verify || seed % 2 == 0 {
        if verify || seed % 2 == 0 {
            framed.verify_version(verify);
        }
    }
    loop {
        let st = {
            let mut s = sh.lock().unwrap();
            if let Some(m) = &s.skipped {
                return ReplayVerdict::Skipped(m.clone());
            }
            if let Some(m) = &s.mismatch {
                return ReplayVerdict::Mismatch(m.clone());
            }
            match s.next_io_step() {
                Some(st) => st,
                None => {
                    if let Some(m) = &s.skipped {
                        return ReplayVerdict::Skipped(m.clone());
                    }
                    break;
                },
            }
        };
        match st.a.as_str() {
            "read" => {
                sh.lock().unwrap().i += 1;
                let r = std::panic::catch_unwind(std::panic::AssertUnwindSafe(|| framed.read())).map_err(|_| ());
                let mut s = sh.lock().unwrap();
                if let Some(m) = &s.skipped {
                    return ReplayVerdict::Skipped(m.clone());
                }
                let got = classify_result(&mut s, r);
                if let Some(m) = &s.mismatch {
                    return ReplayVerdict::Mismatch(m.clone());
                }
                let want = match s.next_io_step() {
                    Some(w) if w.a == "result" => w,
                    other => {
                        return ReplayVerdict::Mismatch(format!(
                            "read() returned {} where the model's next step is {:?} [step {}] | detail: {:?}",
                            got.t, other.map(|o| o.a), s.i, got
                        ))
                    },
                };
                if let Err(m) = check_result(&mut s, &want, &got) {
                    return ReplayVerdict::Mismatch(format!("{m} [step {}]", s.i));
                }
                s.i += 1;
            },
            "wcall" => {
                let c = seed as usize + sh.lock().unwrap().i;
                let hs = if st.n == 44 { handshake_isi(&pool, c) } else { None };
                let (p, enc) = match (&hs, user_packet(&pool, st.n as usize, c)) {
                    (Some((isi, enc)), _) => (insim::Packet::Isi(isi.clone()), enc.clone()),
                    (None, Some(x)) => x,
                    (None, None) => return ReplayVerdict::Skipped(format!("no user packet of length {}", st.n)),
                };
                {
                    let mut s = sh.lock().unwrap();
                    s.i += 1;
                    s.user_frame = Some(enc);
                }
                let r = std::panic::catch_unwind(std::panic::AssertUnwindSafe(|| match hs {
                    Some((isi, _)) => framed.handshake(isi),
                    None => framed.write(p),
                }));
                let mut s = sh.lock().unwrap();
                if let Some(m) = &s.mismatch {
                    return ReplayVerdict::Mismatch(m.clone());
                }
                if s.resumed {
                    return ReplayVerdict::Ok; // carried on with the rest of the frame after a failed transport write: contiguous
                }
                match r {
                    Ok(Ok(())) => {},
                    Ok(Err(_)) if s.wfailed && s.next_io_step().map(|w| w.a == "werr").unwrap_or(false) => {
                        // the failure was reported; the model's connection is finished
                        return ReplayVerdict::Ok;
                    },
                    other => return ReplayVerdict::Mismatch(format!("write() returned {:?}", other.map_err(|_| "panic"))),
                }
                match s.next_io_step() {
                    Some(w) if w.a == "wdone" => s.i += 1,
                    other => {
                        return ReplayVerdict::Mismatch(format!(
                            "write() returned although the model's transport has not taken the whole frame: next step {:?} [step {}]",
                            other, s.i
                        ))
                    },
                }
            },
            other => {
                return ReplayVerdict::Mismatch(format!("harness: unexpected top-level step {other} at {}", sh.lock().unwrap().i))
            },
        }
    }
    let s = sh.lock().unwrap();
    if let Some(m) = &s.mismatch {
        return ReplayVerdict::Mismatch(m.clone());
    }
    // (after a failed write of the reply the model's connection is finished and a partial reply may be on the wire)
    if s.cur_out.is_some() && !s.steps.iter().any(|st| st.a == "pongerr") {
        return ReplayVerdict::Mismatch("a partial frame is left on the outgoing side".into());
    }
    ReplayVerdict::Ok
}

pub fn replay_tokio(pool: Arc<Pool>, verify: bool, steps: Vec<Step>, seed: u64) -> ReplayVerdict {
    replay_tokio_on(pool, verify, steps, seed, false)
}

/// wsq = true: the scripted transport queues writes like the websocket adaptor (see Shared::scripted_flush)
pub fn replay_tokio_on(pool: Arc<Pool>, verify: bool, steps: Vec<Step>, seed: u64, wsq: bool) -> ReplayVerdict {
    use std::future::Future;

    use insim::net::{tokio_impl::Framed, Codec};
    let rt = tokio::runtime::Builder::new_current_thread().enable_time().start_paused(true).build().unwrap();
    rt.block_on(async move {
        let mode = pool.mode.clone();
        let sh = Arc::new(Mutex::new(Shared::new(&mode, pool.clone(), true, steps.clone(), seed, nocfg())));
        sh.lock().unwrap().wsq = wsq;
        let mut framed = Framed::new(Box::new(AsyncTransport(sh.clone())), Codec::new(crate::frames::mode_of(&mode)));
        framed.verify_version(verify);
        let waker = futures_util::task::noop_waker();
        let mut cx = Context::from_waker(&waker);
        loop {
            let st = {
                let mut s = sh.lock().unwrap();
                if let Some(m) = &s.skipped {
                    return ReplayVerdict::Skipped(m.clone());
                }
                if let Some(m) = &s.mismatch {
                    return ReplayVerdict::Mismatch(m.clone());
                }
                match s.next_io_step() {
                    Some(st) => st,
                    None => {
                        if let Some(m) = &s.skipped {
                            return ReplayVerdict::Skipped(m.clone());
                        }
                        break;
                    },
                }
            };
            match st.a.as_str() {
                "read" => {
                    sh.lock().unwrap().i += 1;
                    let mut fut = Box::pin(framed.read());
                    let mut polls = 0usize;
                    let outcome = loop {
                        polls += 1;
                        if polls > 10_000 {
                            return ReplayVerdict::Mismatch("read() future does not complete (10000 polls)".into());
                        }
                        let r = std::panic::catch_unwind(std::panic::AssertUnwindSafe(|| fut.as_mut().poll(&mut cx)));
                        match r {
                            Err(_) => break Some(Err(())),
                            Ok(Poll::Ready(x)) => break Some(Ok(x)),
                            Ok(Poll::Pending) => {
                                let nxt = {
                                    let mut s = sh.lock().unwrap();
                                    if let Some(m) = &s.mismatch {
                                        return ReplayVerdict::Mismatch(m.clone());
                                    }
                                    s.next_io_step()
                                };
                                match nxt.as_ref().map(|x| x.a.as_str()) {
                                    Some("cancel") => {
                                        sh.lock().unwrap().i += 1;
                                        break None;
                                    },
                                    Some("timeout") => {
                                        sh.lock().unwrap().i += 1;
                                        tokio::time::advance(std::time::Duration::from_secs(insim::net::DEFAULT_TIMEOUT_SECS + 1)).await;
                                    },
                                    _ => {},
                                }
                            },
                        }
                    };
                    drop(fut);
                    let r = match outcome {
                        None => continue, // cancelled: the future is gone, go on with the script
                        Some(r) => r,
                    };
                    let mut s = sh.lock().unwrap();
                    if let Some(m) = &s.skipped {
                        return ReplayVerdict::Skipped(m.clone());
                    }
                    let got = classify_result(&mut s, r);
                    if let Some(m) = &s.mismatch {
                        return ReplayVerdict::Mismatch(m.clone());
                    }
                    let want = match s.next_io_step() {
                        Some(w) if w.a == "result" => w,
                        other => {
                            return ReplayVerdict::Mismatch(format!(
                                "read() returned {} where the model's next step is {:?} [step {}] | detail: {:?}",
                                got.t, other.map(|o| o.a), s.i, got
                            ))
                        },
                    };
                    if let Err(m) = check_result(&mut s, &want, &got) {
                        return ReplayVerdict::Mismatch(format!("{m} [step {}]", s.i));
                    }
                    s.i += 1;
                },
                "wcall" => {
                    let c = seed as usize + sh.lock().unwrap().i;
                    let hs = if st.n == 44 { handshake_isi(&pool, c) } else { None };
                    let (p, enc) = match (&hs, user_packet(&pool, st.n as usize, c)) {
                        (Some((isi, enc)), _) => (insim::Packet::Isi(isi.clone()), enc.clone()),
                        (None, Some(x)) => x,
                        (None, None) => return ReplayVerdict::Skipped(format!("no user packet of length {}", st.n)),
                    };
                    {
                        let mut s = sh.lock().unwrap();
                        s.i += 1;
                        s.user_frame = Some(enc);
                    }
                    let mut fut: std::pin::Pin<Box<dyn std::future::Future<Output = insim::Result<()>> + '_>> = match hs {
                        // (the handshake's own time limit is generous: the scripted transport may stay not ready for minutes)
                        Some((isi, _)) => Box::pin(framed.handshake(isi, std::time::Duration::from_secs(1_000_000))),
                        None => Box::pin(framed.write(p)),
                    };
                    let mut polls = 0;
                    let r = loop {
                        polls += 1;
                        if polls > 10_000 {
                            return ReplayVerdict::Mismatch("write() future does not complete (10000 polls)".into());
                        }
                        match std::panic::catch_unwind(std::panic::AssertUnwindSafe(|| fut.as_mut().poll(&mut cx))) {
                            Err(_) => break Err("panic".to_string()),
                            Ok(Poll::Ready(Ok(()))) => break Ok(()),
                            Ok(Poll::Ready(Err(e))) => break Err(format!("{e}")),
                            Ok(Poll::Pending) => {
                                if let Some(m) = &sh.lock().unwrap().mismatch {
                                    return ReplayVerdict::Mismatch(m.clone());
                                }
                                // a transport may stay not ready for a long time: two minutes pass on the (paused) clock
                                tokio::time::advance(std::time::Duration::from_secs(120)).await;
                            },
                        }
                    };
                    drop(fut);
                    let mut s = sh.lock().unwrap();
                    if let Some(m) = &s.mismatch {
                        return ReplayVerdict::Mismatch(m.clone());
                    }
                    if s.resumed {
                        return ReplayVerdict::Ok;
                    }
                    if let Err(e) = r {
                        if e != "panic" && s.wfailed && s.next_io_step().map(|w| w.a == "werr").unwrap_or(false) {
                            return ReplayVerdict::Ok;
                        }
                        return ReplayVerdict::Mismatch(format!("write() returned {e}"));
                    }
                    match s.next_io_step() {
                        Some(w) if w.a == "wdone" => s.i += 1,
                        other => {
                            return ReplayVerdict::Mismatch(format!(
                                "write() returned although the model's transport has not taken the whole frame: next step {:?} [step {}]",
                                other, s.i
                            ))
                        },
                    }
                },
                other => {
                    return ReplayVerdict::Mismatch(format!("harness: unexpected top-level step {other} at {}", sh.lock().unwrap().i))
                },
            }
        }
        let s = sh.lock().unwrap();
        if let Some(m) = &s.mismatch {
            return ReplayVerdict::Mismatch(m.clone());
        }
        if s.cur_out.is_some() && !s.steps.iter().any(|st| st.a == "pongerr") {
            return ReplayVerdict::Mismatch("a partial frame is left on the outgoing side".into());
        }
        ReplayVerdict::Ok
    })
}

// -------------------------------------------------------------------- random sessions (impl -> spec)
pub struct TraceCfg {
    pub flavor: String,
    pub mode: String,
    pub verify: bool,
    pub frames: usize,
    pub seed: u64,
    pub writes: bool,
    pub cancels: bool,
    pub wseg: Option<u8>,
    pub noka: bool,
    pub kaheavy: bool,
    pub fixed: Option<VecDeque<(Vec<u8>, String)>>,
    pub seg: Option<u8>,
    pub p_err: Option<f64>,
    /// > 0: long pre-filled stream read in fixed-size pieces (seg 6)
    pub chunk: usize,
}

fn result_event(o: &Outcome) -> Value {
    json!({"ev": "Result", "t": o.t, "id": o.id, "ver": o.ver})
}

fn random_cfg(rng: &mut StdRng, tc: &TraceCfg) -> RandomCfg {
    let mut classes: Vec<String> = vec!["tiny".into(), "pkt".into(), "pkt".into(), "pkt".into(), "bad".into()];
    classes.push("ver9".into());
    classes.push("verX".into());
    if !tc.noka {
        classes.push("ka".into());
    }
    if tc.kaheavy {
        classes = vec!["ka".into(), "ka".into(), "tiny".into(), "pkt".into()];
    }
    let seg = rng.gen_range(0..6);
    let p_err = if rng.gen_bool(0.5) { 0.0 } else { 0.05 };
    let wseg = rng.gen_range(0..3);
    RandomCfg {
        seg: tc.seg.unwrap_or(seg),
        p_err: tc.p_err.unwrap_or(p_err),
        p_pend: if tc.flavor == "tokio" { 0.2 } else { 0.0 },
        wseg: tc.wseg.unwrap_or(wseg),
        frames_left: tc.fixed.as_ref().map(|q| q.len()).unwrap_or(tc.frames),
        max_len: if rng.gen_bool(0.5) { 1020 } else { 255 },
        classes,
        close_at_end: true,
        fixed: tc.fixed.clone(),
        chunk: tc.chunk,
        burst: if tc.chunk > 0 { 400 } else { 0 },
    }
}

/// One randomized session on the blocking connection; returns the NDJSON events.
pub fn trace_blocking(pool: Arc<Pool>, tc: &TraceCfg) -> Vec<Value> {
    use insim::net::{blocking_impl::Framed, Codec};
    let mut rng = StdRng::seed_from_u64(tc.seed ^ 0x5eed);
    let rcfg = random_cfg(&mut rng, tc);
    let sh = Arc::new(Mutex::new(Shared::new(&tc.mode, pool.clone(), false, vec![], tc.seed, rcfg)));
    let mut framed = Framed::new(Box::new(BlockingTransport(sh.clone())), Codec::new(crate::frames::mode_of(&tc.mode)));
    if tc.verify || tc.seed % 2 == 0 {
        if tc.verify || tc.seed % 2 == 0 {
            framed.verify_version(tc.verify);
        }
    }
    sh.lock().unwrap().ev(json!({"ev": "Reset", "transport": "stream", "flavor": "blocking", "verify": tc.verify, "mode": tc.mode}));
    let mut nwrites = 0usize;
    for _round in 0..(tc.frames * 6 + 50 + tc.fixed.as_ref().map(|q| q.len() * 3).unwrap_or(0)) {
        if tc.writes && rng.gen_bool(0.15) {
            let lens: Vec<usize> = pool.by_len.keys().copied().filter(|l| *l <= 255).collect();
            let len = lens[rng.gen_range(0..lens.len())];
            if let Some((p, enc)) = user_packet(&pool, len, rng.gen_range(0..10000)) {
                nwrites += 1;
                {
                    let mut s = sh.lock().unwrap();
                    s.user_frame = Some(enc.clone());
                    s.in_user_write = true;
                    s.ev(json!({"ev": "WriteCall", "n": enc.len(), "id": nwrites}));
                }
                let r = std::panic::catch_unwind(std::panic::AssertUnwindSafe(|| framed.write(p)));
                let mut s = sh.lock().unwrap();
                s.in_user_write = false;
                let res = match r {
                    Ok(Ok(())) => "ok",
                    Ok(Err(_)) => "err",
                    Err(_) => "panic",
                };
                s.ev(json!({"ev": "WriteDone", "id": nwrites, "res": res}));
            }
            continue;
        }
        sh.lock().unwrap().ev(json!({"ev": "ReadCall"}));
        let r = std::panic::catch_unwind(std::panic::AssertUnwindSafe(|| framed.read())).map_err(|_| ());
        let mut s = sh.lock().unwrap();
        let o = classify_result(&mut s, r);
        s.ev(result_event(&o));
        if o.t == "disconnected" || o.t == "panic" || o.t == "frame_err" {
            break;
        }
    }
    let s = sh.lock().unwrap();
    s.events.clone()
}

pub fn trace_tokio(pool: Arc<Pool>, tc: &TraceCfg) -> Vec<Value> {
    use std::future::Future;

    use insim::net::{tokio_impl::Framed, Codec};
    let rt = tokio::runtime::Builder::new_current_thread().enable_time().start_paused(true).build().unwrap();
    let tcseed = tc.seed;
    rt.block_on(async move {
        let mut rng = StdRng::seed_from_u64(tcseed ^ 0x5eed);
        let rcfg = random_cfg(&mut rng, tc);
        let sh = Arc::new(Mutex::new(Shared::new(&tc.mode, pool.clone(), false, vec![], tc.seed, rcfg)));
        let mut framed = Framed::new(Box::new(AsyncTransport(sh.clone())), Codec::new(crate::frames::mode_of(&tc.mode)));
        framed.verify_version(tc.verify);
        sh.lock().unwrap().ev(json!({"ev": "Reset", "transport": "stream", "flavor": "tokio", "verify": tc.verify, "mode": tc.mode}));
        let waker = futures_util::task::noop_waker();
        let mut cx = Context::from_waker(&waker);
        let mut nwrites = 0usize;
        'outer: for _round in 0..(tc.frames * 8 + 50 + tc.fixed.as_ref().map(|q| q.len() * 4).unwrap_or(0)) {
            if tc.writes && rng.gen_bool(0.15) {
                let lens: Vec<usize> = pool.by_len.keys().copied().filter(|l| *l <= 255).collect();
                let len = lens[rng.gen_range(0..lens.len())];
                if let Some((p, enc)) = user_packet(&pool, len, rng.gen_range(0..10000)) {
                    nwrites += 1;
                    {
                        let mut s = sh.lock().unwrap();
                        s.user_frame = Some(enc.clone());
                        s.in_user_write = true;
                        s.ev(json!({"ev": "WriteCall", "n": enc.len(), "id": nwrites}));
                    }
                    let mut fut = Box::pin(framed.write(p));
                    let res = loop {
                        match std::panic::catch_unwind(std::panic::AssertUnwindSafe(|| fut.as_mut().poll(&mut cx))) {
                            Err(_) => break "panic",
                            Ok(Poll::Ready(Ok(()))) => break "ok",
                            Ok(Poll::Ready(Err(_))) => break "err",
                            Ok(Poll::Pending) => {},
                        }
                    };
                    drop(fut);
                    let mut s = sh.lock().unwrap();
                    s.in_user_write = false;
                    s.ev(json!({"ev": "WriteDone", "id": nwrites, "res": res}));
                }
                continue;
            }
            sh.lock().unwrap().ev(json!({"ev": "ReadCall"}));
            let mut fut = Box::pin(framed.read());
            let r = loop {
                match std::panic::catch_unwind(std::panic::AssertUnwindSafe(|| fut.as_mut().poll(&mut cx))) {
                    Err(_) => break Err(()),
                    Ok(Poll::Ready(x)) => break Ok(x),
                    Ok(Poll::Pending) => {
                        if tc.cancels && rng.gen_bool(0.3) {
                            // a ticker wins the select!: the read future is dropped
                            drop(fut);
                            sh.lock().unwrap().ev(json!({"ev": "Cancel"}));
                            continue 'outer;
                        }
                    },
                }
            };
            drop(fut);
            let mut s = sh.lock().unwrap();
            let o = classify_result(&mut s, r);
            s.ev(result_event(&o));
            if o.t == "disconnected" || o.t == "panic" || o.t == "frame_err" {
                break;
            }
        }
        let s = sh.lock().unwrap();
        s.events.clone()
    })
}

#[allow(dead_code)]
pub fn is_ka(f: &[u8]) -> bool {
    is_keepalive_frame(f)
}

// -------------------------------------------------------------------- deterministic sweeps
/// class of a frame decided from its bytes only (independent of the code under test)
pub fn class_from_bytes(f: &[u8]) -> &'static str {
    if is_keepalive_frame(f) {
        "ka"
    } else if f[1] == 3 {
        "tiny"
    } else if f[1] == 2 {
        if f.len() == 20 && f[18] == 9 {
            "ver9"
        } else {
            "verX"
        }
    } else {
        "pkt"
    }
}

pub fn sweep_frames(pool: &Pool, what: &str) -> Vec<(Vec<u8>, String)> {
    let mut v: Vec<(Vec<u8>, String)> = Vec::new();
    let one_of_each: Vec<Vec<u8>> = pool.by_len.values().flat_map(|fs| fs.iter().cloned()).collect();
    match what {
        "tiny" => {
            for subt in 0..30u8 {
                for reqi in 0..=255u8 {
                    let f = vec![crate::frames::size_byte(&pool.mode, 4), 3, reqi, subt];
                    v.push((f, String::new()));
                }
            }
            // every other kind, once with request id 0 and once with request id 1
            for f in one_of_each.iter() {
                for r in [0u8, 1u8] {
                    let mut g = f.clone();
                    g[2] = r;
                    v.push((g, String::new()));
                }
            }
        },
        _ => {
            let mut k = 0usize;
            for ver in 0..=255u8 {
                let p = insim::Packet::Ver(insim::insim::Ver {
                    reqi: insim::identifiers::RequestId(ver.wrapping_mul(7)),
                    insimver: ver,
                    product: "S3".into(),
                    ..Default::default()
                });
                if let Ok(f) = try_encode(&pool.mode, &p) {
                    v.push((f, String::new()));
                }
                let other = one_of_each[k % one_of_each.len()].clone();
                k += 1;
                v.push((other, String::new()));
            }
            for f in one_of_each.iter() {
                v.push((f.clone(), String::new()));
            }
            // "no other packet kind is ever rejected by the gate": IS_ISI carries an InSim version too (what the sender asks
            // for) - all 256 values of it, and of the first payload byte of every other kind, with the gate on and off
            let isi = insim::Packet::Isi(insim::insim::Isi { reqi: insim::identifiers::RequestId(1), ..Default::default() });
            if let Ok(f) = try_encode(&pool.mode, &isi) {
                // offset 8: InSimVer in IS_ISI (size type reqi zero udpport:2 flags:2 insimver prefix interval:2 ...)
                for ver in 0..=255u8 {
                    let mut g = f.clone();
                    g[8] = ver;
                    v.push((g, String::new()));
                }
            }
            for f in one_of_each.iter() {
                if f.len() > 4 && f[1] != 2 {
                    for val in [0u8, 8, 10, 255] {
                        let mut g = f.clone();
                        g[4] = val;
                        v.push((g, String::new()));
                    }
                }
            }
        },
    }
    v.into_iter()
        .filter(|(f, _)| {
            // only frames the stand-alone codec accepts can be classified pkt/ka/tiny/ver; the rest is class bad
            true && f.len() >= 4
        })
        .map(|(f, _)| {
            let (verdict, _) = standalone(&pool.mode, &f);
            let cls = match verdict {
                Verdict::Pkt { .. } => class_from_bytes(&f).to_string(),
                _ => "bad".to_string(),
            };
            (f, cls)
        })
        .collect()
}

/// Deterministic sessions over a fixed frame list, cut into sessions of at most `per` frames.
pub fn sweep(what: &str, seed: u64, per: usize, half: bool) -> (Vec<Value>, Value) {
    let mut events = Vec::new();
    let mut nframes = 0usize;
    let mut nsessions = 0usize;
    for mode in ["C", "U"] {
        let pool = Arc::new(Pool::new(mode));
        let frames = sweep_frames(&pool, what);
        for flavor in ["blocking", "tokio"] {
            if half && ((mode == "C") != (flavor == "blocking")) {
                continue; // quick tier: (compressed, blocking) and (uncompressed, tokio)
            }
            let verifies: Vec<bool> = if what == "tiny" { vec![false] } else { vec![true, false] };
            for verify in verifies {
                for (ci, chunk) in frames.chunks(per).enumerate() {
                    nsessions += 1;
                    nframes += chunk.len();
                    let tc = TraceCfg {
                        flavor: flavor.to_string(),
                        mode: mode.to_string(),
                        verify,
                        frames: 0,
                        seed: seed + ci as u64,
                        writes: false,
                        cancels: false,
                        wseg: Some(if ci % 3 == 0 { 1 } else { 2 }),
                        noka: false,
                        kaheavy: false,
                        fixed: Some(chunk.iter().cloned().collect()),
                        seg: Some(5),
                        p_err: Some(0.0),
                        chunk: 0,
                    };
                    let evs = if flavor == "blocking" { trace_blocking(pool.clone(), &tc) } else { trace_tokio(pool.clone(), &tc) };
                    events.extend(evs);
                }
            }
        }
    }
    let info = json!({"what": what, "frames": nframes, "sessions": nsessions, "events": events.len()});
    (events, info)
}
