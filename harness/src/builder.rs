//! C18: setter sequences enumerated by TLC (LfsBuilder) applied to the real insim::Builder.
use std::{
    collections::HashMap,
    io::{BufRead, Read, Write},
    net::{SocketAddr, TcpListener, UdpSocket},
    time::Duration,
};

use insim::{identifiers::RequestId, insim::IsiFlags, Builder};
use serde_json::{json, Value};

use crate::{
    abs::Abs,
    wire::{canon, first_diff},
};

fn opt<'a>(v: &'a Value) -> Option<&'a Value> {
    if v["some"].as_bool().unwrap_or(false) {
        Some(&v["v"])
    } else {
        None
    }
}

fn free_udp_port() -> u16 {
    let s = UdpSocket::bind("127.0.0.1:0").expect("bind");
    s.local_addr().unwrap().port()
}

fn apply(mut b: Builder, calls: &Value, remote: SocketAddr, local: SocketAddr) -> Result<Builder, String> {
    for c in calls.as_array().ok_or("calls")? {
        let name = c["name"].as_str().unwrap_or("");
        let arg = &c["arg"];
        b = match name {
            "isi_flag" => {
                let on = arg["on"].as_bool().unwrap_or(false);
                match arg["flag"].as_str().unwrap_or("") {
                    "LOCAL" => b.isi_flag_local(on),
                    "MSO_COLS" => b.isi_flag_mso_cols(on),
                    "NLP" => b.isi_flag_nlp(on),
                    "MCI" => b.isi_flag_mci(on),
                    "CON" => b.isi_flag_con(on),
                    "OBH" => b.isi_flag_obh(on),
                    "HLV" => b.isi_flag_hlv(on),
                    "AXM_LOAD" => b.isi_flag_axm_load(on),
                    "AXM_EDIT" => b.isi_flag_axm_edit(on),
                    "REQ_JOIN" => b.isi_flag_req_join(on),
                    other => return Err(format!("unknown flag {other}")),
                }
            },
            "isi_flags" => b.isi_flags(IsiFlags::from_abs(arg)?),
            "isi_prefix" => b.isi_prefix(opt(arg).map(|v| char::from_u32(v.as_u64().unwrap_or(0) as u32).unwrap_or('!'))),
            "isi_interval" => b.isi_interval(opt(arg).map(|v| Duration::from_millis(v.as_u64().unwrap_or(0)))),
            "isi_iname" => b.isi_iname(opt(arg).map(|v| String::from_abs(v).unwrap_or_default())),
            "isi_admin_password" => b.isi_admin_password(opt(arg).map(|v| String::from_abs(v).unwrap_or_default())),
            "isi_reqi" => b.isi_reqi(RequestId(arg.as_u64().unwrap_or(0) as u8)),
            "tcp" => b.tcp(remote),
            "udp" => {
                if arg.as_bool().unwrap_or(false) {
                    b.udp(remote, Some(local))
                } else {
                    b.udp(remote, None)
                }
            },
            "relay" => b.relay(),
            // LfsBuilder.SetOther: options the handshake does not depend on ("some" = a value / true, "none" = None / false)
            "relay_select_host" => b.relay_select_host(opt(arg).map(|v| String::from_abs(v).unwrap_or_default())),
            "relay_spectator_password" => b.relay_spectator_password(opt(arg).map(|v| String::from_abs(v).unwrap_or_default())),
            "relay_admin_password" => b.relay_admin_password(opt(arg).map(|v| String::from_abs(v).unwrap_or_default())),
            "relay_websocket" => b.relay_websocket(opt(arg).is_some()),
            "connect_timeout" => b.connect_timeout(Duration::from_secs(if opt(arg).is_some() { 7 } else { 5 })),
            "tcp_nodelay" => b.tcp_nodelay(opt(arg).is_some()),
            "verify_version" => b.verify_version(arg.as_bool().unwrap_or(true)),
            "compressed" => b.compressed(),
            "uncompressed" => b.uncompressed(),
            other => return Err(format!("unknown setter {other}")),
        };
    }
    Ok(b)
}

fn expected_bytes(v: &Value, local_port: u16) -> Vec<u8> {
    let mut b: Vec<u8> = v["handshake"].as_array().unwrap().iter().map(|x| x.as_u64().unwrap() as u8).collect();
    if v["isi"]["udpport"].as_u64().unwrap_or(0) != 0 {
        b[4] = (local_port & 255) as u8;
        b[5] = (local_port >> 8) as u8;
    }
    b
}

/// run the real connect against a loopback peer and return every byte that arrived
fn tcp_capture(connect: impl FnOnce(SocketAddr) -> Result<(), String>) -> Result<Vec<u8>, String> {
    let listener = TcpListener::bind("127.0.0.1:0").map_err(|e| e.to_string())?;
    let addr = listener.local_addr().unwrap();
    let h = std::thread::spawn(move || -> Vec<u8> {
        let mut got = Vec::new();
        let _ = listener.set_nonblocking(true);
        let mut conn = None;
        for _ in 0..400 {
            match listener.accept() {
                Ok((s, _)) => {
                    conn = Some(s);
                    break;
                },
                Err(_) => std::thread::sleep(Duration::from_millis(5)),
            }
        }
        if let Some(mut s) = conn {
            let _ = s.set_nonblocking(false);
            let _ = s.set_read_timeout(Some(Duration::from_millis(2500)));
            let mut buf = [0u8; 4096];
            loop {
                match s.read(&mut buf) {
                    Ok(0) => break,
                    Ok(n) => got.extend_from_slice(&buf[..n]),
                    Err(_) => break,
                }
            }
        }
        got
    });
    let r = connect(addr);
    let got = h.join().map_err(|_| "listener thread panicked".to_string())?;
    r.map(|_| got)
}

/// C09 through the builder: connect to a loopback fake LFS that answers the ISI with an IS_VER of InSim version 8, read once
/// from the connection the builder returned and say what came back ("version_err" / "pkt" / ...)
fn gate_probe(proto: &str, flavor: &str, calls: &Value, mode: &str, local: SocketAddr) -> Result<String, String> {
    use insim::{insim::Ver, Packet};
    let ver = crate::frames::try_encode(mode, &Packet::Ver(Ver { reqi: RequestId(1), insimver: 8, product: "S3".into(), ..Default::default() }))?;
    let classify = |r: insim::Result<Packet>| -> String {
        match r {
            Ok(Packet::Ver(_)) => "pkt".into(),
            Ok(_) => "other".into(),
            Err(insim::Error::IncompatibleVersion(8)) => "version_err".into(),
            Err(e) => format!("error: {e}"),
        }
    };
    if proto == "tcp" {
        let listener = TcpListener::bind("127.0.0.1:0").map_err(|e| e.to_string())?;
        let addr = listener.local_addr().unwrap();
        let ver2 = ver.clone();
        let h = std::thread::spawn(move || {
            if let Ok((mut s, _)) = listener.accept() {
                let _ = s.set_read_timeout(Some(Duration::from_millis(2500)));
                let mut isi = [0u8; 44];
                let _ = s.read_exact(&mut isi);
                let _ = s.write_all(&ver2);
                std::thread::sleep(Duration::from_millis(40));
            }
        });
        let bld = apply(Builder::default().tcp(addr), calls, addr, local)?;
        let out = if flavor == "blocking" {
            let mut f = bld.connect_blocking().map_err(|e| format!("connect_blocking: {e}"))?;
            classify(f.read())
        } else {
            let rt = tokio::runtime::Builder::new_current_thread().enable_all().build().unwrap();
            rt.block_on(async {
                let mut f = bld.connect_async().await.map_err(|e| format!("connect_async: {e}"))?;
                Ok::<String, String>(match tokio::time::timeout(Duration::from_millis(2500), f.read()).await {
                    Ok(r) => classify(r),
                    Err(_) => "timeout".into(),
                })
            })?
        };
        let _ = h.join();
        Ok(out)
    } else {
        let peer = UdpSocket::bind("127.0.0.1:0").unwrap();
        let _ = peer.set_read_timeout(Some(Duration::from_millis(2500)));
        let addr = peer.local_addr().unwrap();
        let ver2 = ver.clone();
        let h = std::thread::spawn(move || {
            let mut buf = [0u8; 2048];
            if let Ok((_, from)) = peer.recv_from(&mut buf) {
                let _ = peer.send_to(&ver2, from);
            }
        });
        let bld = apply(Builder::default(), calls, addr, local)?;
        let out = if flavor == "blocking" {
            let mut f = bld.connect_blocking().map_err(|e| format!("connect_blocking: {e}"))?;
            classify(f.read())
        } else {
            let rt = tokio::runtime::Builder::new_current_thread().enable_all().build().unwrap();
            rt.block_on(async {
                let mut f = bld.connect_async().await.map_err(|e| format!("connect_async: {e}"))?;
                Ok::<String, String>(match tokio::time::timeout(Duration::from_millis(2500), f.read()).await {
                    Ok(r) => classify(r),
                    Err(_) => "timeout".into(),
                })
            })?
        };
        let _ = h.join();
        Ok(out)
    }
}

pub fn cmd_builder_replay(a: &HashMap<String, String>) -> i32 {
    let path = a.get("in").expect("--in");
    let connect_stride: usize = a.get("connect-stride").and_then(|s| s.parse().ok()).unwrap_or(1).max(1);
    let gate = a.get("gate").map(|s| s == "1").unwrap_or(false);
    let handshake = a.get("handshake").map(|s| s != "0").unwrap_or(true);
    let out = std::io::stdout();
    let mut out = out.lock();
    let (mut n, mut bad, mut connects) = (0u64, 0u64, 0u64);
    for (lineno, line) in std::io::BufReader::new(std::fs::File::open(path).expect("open")).lines().enumerate() {
        let v: Value = serde_json::from_str(&line.unwrap()).expect("json");
        n += 1;
        let mut problems: Vec<String> = Vec::new();
        let local_port = free_udp_port();
        let local: SocketAddr = format!("127.0.0.1:{local_port}").parse().unwrap();
        let dummy_remote: SocketAddr = "127.0.0.1:9".parse().unwrap();
        // 1. the Isi value
        match apply(Builder::default(), &v["calls"], dummy_remote, local) {
            Err(e) => problems.push(format!("harness: {e}")),
            Ok(b) => match std::panic::catch_unwind(std::panic::AssertUnwindSafe(|| b.isi())) {
                Err(_) => problems.push("Builder::isi() panicked".into()),
                Ok(isi) => {
                    let mut want = v["isi"].clone();
                    if want["udpport"].as_u64().unwrap_or(0) != 0 {
                        want["udpport"] = json!(local_port);
                    }
                    if let Some(d) = first_diff(&canon(&want), &canon(&isi.to_abs()), "isi") {
                        problems.push(format!("Builder::isi() differs from the configured options at {d} (specification vs code)"));
                    }
                },
            },
        }
        // 2. the bytes on the wire
        let proto = v["proto"].as_str().unwrap_or("tcp");
        if handshake && problems.is_empty() && proto != "relay" && lineno % connect_stride == 0 {
            let want = expected_bytes(&v, local_port);
            for flavor in ["blocking", "tokio"] {
                connects += 1;
                let calls = v["calls"].clone();
                let got: Result<Vec<u8>, String> = if proto == "tcp" {
                    tcp_capture(|addr| {
                        let b = apply(Builder::default().tcp(addr), &calls, addr, local)?;
                        if flavor == "blocking" {
                            match std::panic::catch_unwind(std::panic::AssertUnwindSafe(|| b.connect_blocking())) {
                                Ok(Ok(f)) => {
                                    std::thread::sleep(Duration::from_millis(5));
                                    drop(f);
                                    Ok(())
                                },
                                Ok(Err(e)) => Err(format!("connect_blocking: {e}")),
                                Err(_) => Err("connect_blocking panicked".into()),
                            }
                        } else {
                            let rt = tokio::runtime::Builder::new_current_thread().enable_all().build().unwrap();
                            match std::panic::catch_unwind(std::panic::AssertUnwindSafe(|| rt.block_on(async { b.connect_async().await.map(|f| drop(f)) }))) {
                                Ok(Ok(())) => Ok(()),
                                Ok(Err(e)) => Err(format!("connect_async: {e}")),
                                Err(_) => Err("connect_async panicked".into()),
                            }
                        }
                    })
                } else {
                    let peer = UdpSocket::bind("127.0.0.1:0").unwrap();
                    let _ = peer.set_read_timeout(Some(Duration::from_millis(2500)));
                    let addr = peer.local_addr().unwrap();
                    let r = apply(Builder::default(), &calls, addr, local).and_then(|b| {
                        if flavor == "blocking" {
                            match std::panic::catch_unwind(std::panic::AssertUnwindSafe(|| b.connect_blocking())) {
                                Ok(Ok(f)) => {
                                    drop(f);
                                    Ok(())
                                },
                                Ok(Err(e)) => Err(format!("connect_blocking: {e}")),
                                Err(_) => Err("connect_blocking panicked".into()),
                            }
                        } else {
                            let rt = tokio::runtime::Builder::new_current_thread().enable_all().build().unwrap();
                            match std::panic::catch_unwind(std::panic::AssertUnwindSafe(|| rt.block_on(async { b.connect_async().await.map(|f| drop(f)) }))) {
                                Ok(Ok(())) => Ok(()),
                                Ok(Err(e)) => Err(format!("connect_async: {e}")),
                                Err(_) => Err("connect_async panicked".into()),
                            }
                        }
                    });
                    r.map(|_| {
                        let mut all = Vec::new();
                        let mut buf = [0u8; 2048];
                        let mut first = true;
                        while let Ok(k) = peer.recv(&mut buf) {
                            if !first {
                                all.push(0xEE); // a second datagram: marks "more than one frame"
                            }
                            all.extend_from_slice(&buf[..k]);
                            first = false;
                            let _ = peer.set_read_timeout(Some(Duration::from_millis(30)));
                        }
                        all
                    })
                };
                match got {
                    Err(e) => problems.push(format!("{proto}/{flavor}: {e}")),
                    Ok(g) => {
                        if g != want {
                            problems.push(format!("{proto}/{flavor}: the peer received {:?}, the handshake must be exactly {:?}", g, want));
                        }
                    },
                }
            }
        }
        // 3. the version gate of the connection the builder returns (C09)
        if gate && problems.is_empty() && proto != "relay" && lineno % connect_stride == 0 && v.get("gate").is_some() {
            let want = if v["gate"].as_bool().unwrap_or(true) { "version_err" } else { "pkt" };
            let mode = v["mode"].as_str().unwrap_or("C");
            for flavor in ["blocking", "tokio"] {
                connects += 1;
                match std::panic::catch_unwind(std::panic::AssertUnwindSafe(|| gate_probe(proto, flavor, &v["calls"], mode, local))) {
                    Ok(Ok(got)) if got == want => {},
                    Ok(Ok(got)) => problems.push(format!("gate:{proto}/{flavor}: an IS_VER of version 8 came back as {got} where the configured gate gives {want}")),
                    Ok(Err(e)) => problems.push(format!("gate:{proto}/{flavor}: {e}")),
                    Err(_) => problems.push(format!("gate:{proto}/{flavor}: panicked")),
                }
            }
        }
        if !problems.is_empty() {
            bad += 1;
            let _ = writeln!(out, "{}", json!({"mismatch": problems.join("; "), "case": v}));
        }
    }
    let _ = writeln!(out, "{}", json!({"summary": {"behaviours": n, "mismatch": bad, "connects": connects}}));
    0
}
