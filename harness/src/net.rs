//! Conformance of the UDP adaptors (blocking and tokio) and of the WebSocket adaptor on real
//! loopback sockets: `UdpStream` / `WebsocketStream` can only be built from real sockets.
//!
//! A *plan* is a list of operations (peer sends a datagram / a websocket message / closes; the
//! application reads or writes).  Plans come from TLC behaviours (spec -> impl: the results are
//! compared with the model's) or from a seeded generator (impl -> spec: the recorded events are
//! validated by Trace_Conn).  The sender is paced by the receiver - a read is only issued when
//! a complete frame (or the end of the stream) is under way - so kernel drops cannot raise
//! false alarms; a read that does not complete within the time limit is reported as `timeout`.
use std::{collections::VecDeque, sync::Arc, time::Duration};

use rand::{rngs::StdRng, Rng, SeedableRng};
use serde_json::{json, Value};

use crate::{
    conn::{classify_result, Outcome, RandomCfg, Shared, Step},
    frames::{standalone, try_encode, Pool, Verdict},
};

#[derive(Debug, Clone)]
pub enum Op {
    /// udp: one datagram made of these frames (len, cls)
    Dgram(Vec<(usize, String)>),
    /// ws: the relay appends a frame to its byte stream
    Send(usize, String),
    /// ws: the next k bytes of the stream leave as one binary message; or a non-binary / empty message
    WsMsg(String, usize),
    Close,
    /// read(); if Some, the expected result (t, id) from the model
    Read(Option<(String, usize)>),
    /// write a user packet whose frame has this length
    Write(usize),
    /// udp: read while nothing is on its way: the blocking socket's read time-out fires (an I/O error, after which the session
    /// goes on); the tokio read is dropped after a while (a cancellation)
    Quiet,
}

pub struct Session {
    pub transport: String,
    pub flavor: String,
    pub mode: String,
    pub verify: bool,
    pub plan: Vec<Op>,
    /// UDP: begin with the refused-datagram scenario (see refused_prologue_*)
    pub refused: bool,
}

pub struct SessionResult {
    pub events: Vec<Value>,
    pub mismatch: Option<String>,
    pub skipped: Option<String>,
}

const READ_LIMIT: Duration = Duration::from_millis(4000);

/// A time limit that does NOT poll the future once more when the limit is reached (tokio::time::timeout does, which turns a
/// reader that went to sleep without arranging a wake-up into a merely slow one): the timer is looked at first.
async fn limited<T>(limit: Duration, fut: impl std::future::Future<Output = T>) -> Result<T, ()> {
    tokio::pin!(fut);
    let sleep = tokio::time::sleep(limit);
    tokio::pin!(sleep);
    tokio::select! {
        biased;
        _ = &mut sleep => Err(()),
        r = &mut fut => Ok(r),
    }
}

fn nocfg() -> RandomCfg {
    RandomCfg { seg: 4, p_err: 0.0, p_pend: 0.0, wseg: 2, frames_left: 0, max_len: 0, classes: vec![], close_at_end: false, fixed: None, chunk: 0, burst: 0 }
}

/// bookkeeping shared by all drivers: the frames sent (for result identification) and the events
struct Book {
    sh: Shared,
    stream: VecDeque<u8>, // ws: bytes produced, not yet packed
    pending_units: VecDeque<Vec<u8>>, // frames the application wrote / replies expected at the peer
}

impl Book {
    fn new(mode: &str, pool: Arc<Pool>, seed: u64) -> Self {
        Book { sh: Shared::new(mode, pool, false, vec![], seed, nocfg()), stream: VecDeque::new(), pending_units: VecDeque::new() }
    }
    fn ev(&mut self, v: Value) {
        self.sh.events.push(v);
    }
    /// make the concrete frame, record it; returns the bytes or None (skipped)
    fn make(&mut self, len: usize, cls: &str) -> Option<Vec<u8>> {
        self.sh.incoming.clear();
        if self.sh.peer_send(len, cls) {
            let f: Vec<u8> = self.sh.incoming.drain(..).collect();
            Some(f)
        } else {
            None
        }
    }
}

fn result_event(o: &Outcome) -> Value {
    json!({"ev": "Result", "t": o.t, "id": o.id, "ver": o.ver})
}

fn check_expected(exp: &Option<(String, usize)>, o: &Outcome) -> Option<String> {
    if let Some((t, id)) = exp {
        if *t != o.t || (t == "pkt" && *id != o.id) {
            return Some(format!(
                "read() returned {} (frame {}) where the model returns {}(frame {}) | detail: {}",
                o.t, o.id, t, id, o.detail
            ));
        }
    }
    None
}

fn user_packet(pool: &Pool, len: usize, c: usize) -> Option<(insim::Packet, Vec<u8>)> {
    // built from the typed packet, not by decoding a frame with the decoder under test
    pool.typed(len, c)
}

// ------------------------------------------------------------------------------------- UDP: a refused datagram
/// The peer's port is closed while one datagram is sent (nobody is listening: LFS not started yet), then the peer is back.  The
/// kernel parks the ICMP "port unreachable" on the socket and refuses the NEXT send without sending anything.  Whatever the
/// adaptor makes of that: a write that returned Ok has put its frame on the wire as one datagram, a write that returned an error
/// has not (Trace_Conn: WriteDone ok -> Unit, WriteDone err -> no Unit, then a new session).
fn refused_prologue_blocking(book: &mut Book, pool: &Arc<Pool>, mode: &str, seed: u64) -> Option<String> {
    use std::net::UdpSocket;

    use insim::net::{blocking_impl::{Framed, UdpStream}, Codec};
    let peer0 = UdpSocket::bind("127.0.0.1:0").ok()?;
    let paddr = peer0.local_addr().ok()?;
    let app = UdpSocket::bind("127.0.0.1:0").ok()?;
    app.connect(paddr).ok()?;
    let aaddr = app.local_addr().ok()?;
    drop(peer0);
    let mut framed = Framed::new(Box::new(UdpStream::from(app)), Codec::new(crate::frames::mode_of(mode)));
    // (not part of the recorded session: this datagram goes nowhere)
    if let Some((p, _)) = user_packet(pool, 4, seed as usize) {
        let _ = std::panic::catch_unwind(std::panic::AssertUnwindSafe(|| framed.write(p)));
    }
    std::thread::sleep(Duration::from_millis(30));
    let peer = UdpSocket::bind(paddr).ok()?;
    peer.connect(aaddr).ok()?;
    let mut mismatch = None;
    book.ev(json!({"ev": "Reset", "transport": "udp", "flavor": "blocking", "verify": true, "mode": mode}));
    for k in 0..4usize {
        let (p, enc) = user_packet(pool, [8usize, 4, 8, 4][k], seed as usize + 11 + k)?;
        book.ev(json!({"ev": "WriteCall", "n": enc.len(), "id": k + 1}));
        let r = std::panic::catch_unwind(std::panic::AssertUnwindSafe(|| framed.write(p)));
        let res = match r {
            Ok(Ok(())) => "ok",
            Ok(Err(_)) => "err",
            Err(_) => "panic",
        };
        book.ev(json!({"ev": "WriteDone", "id": k + 1, "res": res}));
        let _ = peer.set_read_timeout(Some(if res == "ok" { READ_LIMIT } else { Duration::from_millis(150) }));
        let mut b = [0u8; 2048];
        match peer.recv(&mut b) {
            Ok(n) => {
                let ok = b[..n] == enc[..];
                book.ev(json!({"ev": "Unit", "n": n, "ok": ok}));
                if (!ok || res != "ok") && mismatch.is_none() {
                    mismatch = Some(format!("after a refused datagram: write() returned {res} and the peer received {:?} (frame {:?})", &b[..n], enc));
                }
            },
            Err(_) if res == "ok" => {
                book.ev(json!({"ev": "Unit", "n": 0, "ok": false}));
                if mismatch.is_none() {
                    mismatch = Some("after a refused datagram: write() returned Ok but no datagram arrived".into());
                }
            },
            Err(_) => {},
        }
        if res != "ok" {
            book.ev(json!({"ev": "Reset", "transport": "udp", "flavor": "blocking", "verify": true, "mode": mode}));
        }
    }
    mismatch
}

async fn refused_prologue_tokio(book: &mut Book, pool: &Arc<Pool>, mode: &str, seed: u64) -> Option<String> {
    use insim::net::{tokio_impl::{Framed, UdpStream}, Codec};
    use tokio::net::UdpSocket;
    {
        let peer0 = UdpSocket::bind("127.0.0.1:0").await.ok()?;
        let paddr = peer0.local_addr().ok()?;
        let app = UdpSocket::bind("127.0.0.1:0").await.ok()?;
        app.connect(paddr).await.ok()?;
        let aaddr = app.local_addr().ok()?;
        drop(peer0);
        let mut framed = Framed::new(Box::new(UdpStream::from(app)), Codec::new(crate::frames::mode_of(mode)));
        if let Some((p, _)) = user_packet(pool, 4, seed as usize) {
            let _ = tokio::time::timeout(READ_LIMIT, framed.write(p)).await;
        }
        tokio::time::sleep(Duration::from_millis(30)).await;
        let peer = UdpSocket::bind(paddr).await.ok()?;
        peer.connect(aaddr).await.ok()?;
        let mut mismatch = None;
        book.ev(json!({"ev": "Reset", "transport": "udp", "flavor": "tokio", "verify": true, "mode": mode}));
        for k in 0..4usize {
            let (p, enc) = user_packet(pool, [8usize, 4, 8, 4][k], seed as usize + 11 + k)?;
            book.ev(json!({"ev": "WriteCall", "n": enc.len(), "id": k + 1}));
            let res = match tokio::time::timeout(READ_LIMIT, framed.write(p)).await {
                Ok(Ok(())) => "ok",
                Ok(Err(_)) => "err",
                Err(_) => "timeout",
            };
            book.ev(json!({"ev": "WriteDone", "id": k + 1, "res": res}));
            let lim = if res == "ok" { READ_LIMIT } else { Duration::from_millis(150) };
            let mut b = [0u8; 2048];
            match tokio::time::timeout(lim, peer.recv(&mut b)).await {
                Ok(Ok(n)) => {
                    let ok = b[..n] == enc[..];
                    book.ev(json!({"ev": "Unit", "n": n, "ok": ok}));
                    if (!ok || res != "ok") && mismatch.is_none() {
                        mismatch = Some(format!("after a refused datagram: write() returned {res} and the peer received {:?} (frame {:?})", &b[..n], enc));
                    }
                },
                _ if res == "ok" => {
                    book.ev(json!({"ev": "Unit", "n": 0, "ok": false}));
                    if mismatch.is_none() {
                        mismatch = Some("after a refused datagram: write() returned Ok but no datagram arrived".into());
                    }
                },
                _ => {},
            }
            if res != "ok" {
                book.ev(json!({"ev": "Reset", "transport": "udp", "flavor": "tokio", "verify": true, "mode": mode}));
            }
        }
        mismatch
    }
}

// ------------------------------------------------------------------------------------- UDP, blocking
pub fn run_udp_blocking(pool: Arc<Pool>, s: &Session, seed: u64) -> SessionResult {
    use std::net::UdpSocket;

    use insim::net::{blocking_impl::{Framed, UdpStream}, Codec};
    let mut book = Book::new(&s.mode, pool.clone(), seed);
    let pre = if s.refused { refused_prologue_blocking(&mut book, &pool, &s.mode, seed) } else { None };
    let peer = UdpSocket::bind("127.0.0.1:0").expect("bind peer");
    let app = UdpSocket::bind("127.0.0.1:0").expect("bind app");
    peer.connect(app.local_addr().unwrap()).unwrap();
    app.connect(peer.local_addr().unwrap()).unwrap();
    app.set_read_timeout(Some(READ_LIMIT)).unwrap();
    peer.set_read_timeout(Some(READ_LIMIT)).unwrap();
    let app_ctl = app.try_clone().expect("clone socket");
    let mut framed = Framed::new(Box::new(UdpStream::from(app)), Codec::new(crate::frames::mode_of(&s.mode)));
    framed.verify_version(s.verify);
    book.ev(json!({"ev": "Reset", "transport": "udp", "flavor": "blocking", "verify": s.verify, "mode": s.mode}));
    let mut mismatch = pre;
    let mut nwrites = 0;
    for op in s.plan.iter() {
        match op {
            Op::Dgram(fs) => {
                let mut bytes = Vec::new();
                let mut desc = Vec::new();
                for (len, cls) in fs {
                    match book.make(*len, cls) {
                        Some(f) => {
                            bytes.extend_from_slice(&f);
                            desc.push(json!({"n": len, "s": cls}));
                        },
                        None => return SessionResult { events: book.sh.events, mismatch: None, skipped: book.sh.skipped.clone() },
                    }
                }
                let _ = peer.send(&bytes).expect("peer send");
                book.ev(json!({"ev": "PeerDgram", "frames": desc}));
            },
            Op::Quiet => {
                let _ = app_ctl.set_read_timeout(Some(Duration::from_millis(120)));
                book.ev(json!({"ev": "ReadCall"}));
                let r = std::panic::catch_unwind(std::panic::AssertUnwindSafe(|| framed.read())).map_err(|_| ());
                let mut o = classify_result(&mut book.sh, r);
                if o.t == "io_other" && (o.detail.contains("WouldBlock") || o.detail.contains("TimedOut")) {
                    o.t = "io_err".into(); // the socket's read time-out: a transient I/O error to the connection
                }
                book.ev(result_event(&o));
                let _ = app_ctl.set_read_timeout(Some(READ_LIMIT));
            },
            Op::Read(exp) => {
                book.ev(json!({"ev": "ReadCall"}));
                let r = std::panic::catch_unwind(std::panic::AssertUnwindSafe(|| framed.read())).map_err(|_| ());
                let mut o = classify_result(&mut book.sh, r);
                if o.t == "io_other" && (o.detail.contains("WouldBlock") || o.detail.contains("TimedOut")) {
                    o.t = "timeout".into();
                }
                book.ev(result_event(&o));
                // a keep-alive must have been answered with exactly one datagram holding the reply
                if o.t == "pkt" && o.id > 0 && book.sh.frames[o.id - 1].cls == "ka" {
                    let mut b = [0u8; 2048];
                    match peer.recv(&mut b) {
                        Ok(n) => {
                            let ok = b[..n] == pool.keepalive()[..];
                            book.ev(json!({"ev": "Unit", "n": n, "ok": ok}));
                        },
                        Err(_) => book.ev(json!({"ev": "Unit", "n": 0, "ok": false})),
                    }
                }
                if mismatch.is_none() {
                    mismatch = check_expected(exp, &o);
                }
                if o.t == "timeout" || o.t == "panic" {
                    break;
                }
            },
            Op::Write(len) => {
                if let Some((p, enc)) = user_packet(&pool, *len, seed as usize + nwrites) {
                    nwrites += 1;
                    book.ev(json!({"ev": "WriteCall", "n": enc.len(), "id": nwrites}));
                    let r = std::panic::catch_unwind(std::panic::AssertUnwindSafe(|| framed.write(p)));
                    let res = match r {
                        Ok(Ok(())) => "ok",
                        Ok(Err(_)) => "err",
                        Err(_) => "panic",
                    };
                    book.ev(json!({"ev": "WriteDone", "id": nwrites, "res": res}));
                    let mut b = [0u8; 2048];
                    match peer.recv(&mut b) {
                        Ok(n) => {
                            let ok = b[..n] == enc[..];
                            book.ev(json!({"ev": "Unit", "n": n, "ok": ok}));
                            if !ok && mismatch.is_none() {
                                mismatch = Some(format!("the datagram received for a written packet is {:?}, expected {:?}", &b[..n], enc));
                            }
                        },
                        Err(_) => {
                            book.ev(json!({"ev": "Unit", "n": 0, "ok": false}));
                            if mismatch.is_none() {
                                mismatch = Some("no datagram arrived for a written packet".into());
                            }
                        },
                    }
                }
            },
            _ => {},
        }
    }
    SessionResult { events: book.sh.events, mismatch, skipped: None }
}

// ------------------------------------------------------------------------------------- UDP, tokio
pub fn run_udp_tokio(pool: Arc<Pool>, s: &Session, seed: u64) -> SessionResult {
    use insim::net::{tokio_impl::{Framed, UdpStream}, Codec};
    use tokio::net::UdpSocket;
    let rt = tokio::runtime::Builder::new_current_thread().enable_all().build().unwrap();
    rt.block_on(async {
        let mut book = Book::new(&s.mode, pool.clone(), seed);
        let pre = if s.refused { refused_prologue_tokio(&mut book, &pool, &s.mode, seed).await } else { None };
        let peer = UdpSocket::bind("127.0.0.1:0").await.expect("bind peer");
        let app = UdpSocket::bind("127.0.0.1:0").await.expect("bind app");
        peer.connect(app.local_addr().unwrap()).await.unwrap();
        app.connect(peer.local_addr().unwrap()).await.unwrap();
        let mut framed = Framed::new(Box::new(UdpStream::from(app)), Codec::new(crate::frames::mode_of(&s.mode)));
        framed.verify_version(s.verify);
        book.ev(json!({"ev": "Reset", "transport": "udp", "flavor": "tokio", "verify": s.verify, "mode": s.mode}));
        let mut mismatch = pre;
        let mut nwrites = 0;
        for op in s.plan.iter() {
            match op {
                Op::Dgram(fs) => {
                    let mut bytes = Vec::new();
                    let mut desc = Vec::new();
                    for (len, cls) in fs {
                        match book.make(*len, cls) {
                            Some(f) => {
                                bytes.extend_from_slice(&f);
                                desc.push(json!({"n": len, "s": cls}));
                            },
                            None => return SessionResult { events: book.sh.events.clone(), mismatch: None, skipped: book.sh.skipped.clone() },
                        }
                    }
                    let _ = peer.send(&bytes).await.expect("peer send");
                    book.ev(json!({"ev": "PeerDgram", "frames": desc}));
                },
                Op::Quiet => {
                    book.ev(json!({"ev": "ReadCall"}));
                    match tokio::time::timeout(Duration::from_millis(120), framed.read()).await {
                        Err(_) => book.ev(json!({"ev": "Cancel"})),
                        Ok(x) => {
                            let o = classify_result(&mut book.sh, Ok(x));
                            book.ev(result_event(&o));
                        },
                    }
                },
                Op::Read(exp) => {
                    book.ev(json!({"ev": "ReadCall"}));
                    let r = limited(READ_LIMIT, framed.read()).await;
                    let mut o = match r {
                        Err(_) => Outcome { t: "timeout".into(), id: 0, ver: -1, detail: "read() did not complete".into() },
                        Ok(x) => classify_result(&mut book.sh, Ok(x)),
                    };
                    if o.t == "io_other" && o.detail.contains("WouldBlock") {
                        o.t = "timeout".into();
                    }
                    book.ev(result_event(&o));
                    if o.t == "pkt" && o.id > 0 && book.sh.frames[o.id - 1].cls == "ka" {
                        let mut b = [0u8; 2048];
                        match tokio::time::timeout(READ_LIMIT, peer.recv(&mut b)).await {
                            Ok(Ok(n)) => {
                                let ok = b[..n] == pool.keepalive()[..];
                                book.ev(json!({"ev": "Unit", "n": n, "ok": ok}));
                            },
                            _ => book.ev(json!({"ev": "Unit", "n": 0, "ok": false})),
                        }
                    }
                    if mismatch.is_none() {
                        mismatch = check_expected(exp, &o);
                    }
                    if o.t == "timeout" || o.t == "panic" {
                        break;
                    }
                },
                Op::Write(len) => {
                    if let Some((p, enc)) = user_packet(&pool, *len, seed as usize + nwrites) {
                        nwrites += 1;
                        book.ev(json!({"ev": "WriteCall", "n": enc.len(), "id": nwrites}));
                        let r = tokio::time::timeout(READ_LIMIT, framed.write(p)).await;
                        let res = match r {
                            Ok(Ok(())) => "ok",
                            Ok(Err(_)) => "err",
                            Err(_) => "timeout",
                        };
                        book.ev(json!({"ev": "WriteDone", "id": nwrites, "res": res}));
                        let mut b = [0u8; 2048];
                        match tokio::time::timeout(READ_LIMIT, peer.recv(&mut b)).await {
                            Ok(Ok(n)) => {
                                let ok = b[..n] == enc[..];
                                book.ev(json!({"ev": "Unit", "n": n, "ok": ok}));
                                if !ok && mismatch.is_none() {
                                    mismatch = Some(format!("the datagram received for a written packet is {:?}, expected {:?}", &b[..n], enc));
                                }
                            },
                            _ => {
                                book.ev(json!({"ev": "Unit", "n": 0, "ok": false}));
                                if mismatch.is_none() {
                                    mismatch = Some("no datagram arrived for a written packet".into());
                                }
                            },
                        }
                    }
                },
                _ => {},
            }
        }
        SessionResult { events: book.sh.events.clone(), mismatch, skipped: None }
    })
}

// ------------------------------------------------------------------------------------- WebSocket (tokio)
pub fn run_ws(pool: Arc<Pool>, s: &Session, seed: u64) -> SessionResult {
    use futures_util::{SinkExt, StreamExt};
    use insim::net::{tokio_impl::{Framed, WebsocketStream}, Codec};
    use tokio_tungstenite::tungstenite::Message;
    let rt = tokio::runtime::Builder::new_current_thread().enable_all().build().unwrap();
    rt.block_on(async {
        let mut book = Book::new(&s.mode, pool.clone(), seed);
        let listener = tokio::net::TcpListener::bind("127.0.0.1:0").await.expect("listen");
        let addr = listener.local_addr().unwrap();
        let url = format!("ws://127.0.0.1:{}/connect", addr.port());
        let server = async {
            let (tcp, _) = listener.accept().await.expect("accept");
            tokio_tungstenite::accept_async(tcp).await.expect("ws accept")
        };
        let client = async { tokio_tungstenite::connect_async(url).await.expect("ws connect").0 };
        let (srv, cli) = tokio::join!(server, client);
        let mut srv = Some(srv);
        let mut framed = Framed::new(Box::new(WebsocketStream::from(cli)), Codec::new(crate::frames::mode_of(&s.mode)));
        framed.verify_version(s.verify);
        book.ev(json!({"ev": "Reset", "transport": "ws", "flavor": "tokio", "verify": s.verify, "mode": s.mode}));
        let mut mismatch = None;
        let mut nwrites = 0;
        // read the next binary message the application sent (auto-replies to pings etc. are skipped)
        async fn next_binary<S: StreamExt<Item = Result<Message, tokio_tungstenite::tungstenite::Error>> + Unpin>(srv: &mut S) -> Option<Vec<u8>> {
            loop {
                match tokio::time::timeout(READ_LIMIT, srv.next()).await {
                    Ok(Some(Ok(Message::Binary(b)))) => return Some(b.to_vec()),
                    Ok(Some(Ok(_))) => continue,
                    _ => return None,
                }
            }
        }
        for op in s.plan.iter() {
            match op {
                Op::Send(len, cls) => match book.make(*len, cls) {
                    Some(f) => {
                        book.stream.extend(f.iter().copied());
                        book.ev(json!({"ev": "PeerSend", "n": len, "s": cls}));
                    },
                    None => return SessionResult { events: book.sh.events.clone(), mismatch: None, skipped: book.sh.skipped.clone() },
                },
                Op::WsMsg(kind, k) => {
                    let msg = match kind.as_str() {
                        "binary" => {
                            let k = (*k).min(book.stream.len());
                            let b: Vec<u8> = book.stream.drain(..k).collect();
                            Message::binary(b)
                        },
                        "text" => Message::text("hello from the relay"),
                        "ping" => Message::Ping(vec![1, 2, 3].into()),
                        _ => Message::binary(Vec::<u8>::new()),
                    };
                    if let Some(sv) = srv.as_mut() {
                        let _ = sv.send(msg).await;
                    }
                    book.ev(json!({"ev": "PeerWsMsg", "kind": kind, "n": k}));
                },
                Op::Close => {
                    // an orderly closure by the relay: send Close, complete the closing handshake while the
                    // application keeps reading, then drop the TCP connection
                    if let Some(mut sv) = srv.take() {
                        // with or without a status: "going away" (a restarting relay) is as orderly a closure as 1000 / none
                        use tokio_tungstenite::tungstenite::protocol::{frame::coding::CloseCode, CloseFrame};
                        let frame = match seed % 3 {
                            0 => None,
                            1 => Some(CloseFrame { code: CloseCode::Away, reason: "relay restarting".into() }),
                            _ => Some(CloseFrame { code: CloseCode::Normal, reason: "bye".into() }),
                        };
                        let _ = sv.close(frame).await;
                        let _ = tokio::spawn(async move {
                            let _ = tokio::time::timeout(Duration::from_millis(1200), async {
                                while let Some(Ok(_)) = sv.next().await {}
                            })
                            .await;
                            drop(sv);
                        });
                    }
                    book.ev(json!({"ev": "PeerClose"}));
                },
                Op::Read(exp) => {
                    book.ev(json!({"ev": "ReadCall"}));
                    let r = limited(READ_LIMIT, framed.read()).await;
                    let o = match r {
                        Err(_) => Outcome { t: "timeout".into(), id: 0, ver: -1, detail: "read() did not complete".into() },
                        Ok(x) => classify_result(&mut book.sh, Ok(x)),
                    };
                    book.ev(result_event(&o));
                    if let (true, Some(sv)) = (o.t == "pkt" && o.id > 0 && book.sh.frames[o.id.max(1) - 1].cls == "ka", srv.as_mut()) {
                        match next_binary(sv).await {
                            Some(b) => {
                                let ok = b[..] == pool.keepalive()[..];
                                book.ev(json!({"ev": "Unit", "n": b.len(), "ok": ok}));
                            },
                            None => book.ev(json!({"ev": "Unit", "n": 0, "ok": false})),
                        }
                    }
                    if mismatch.is_none() {
                        mismatch = check_expected(exp, &o);
                    }
                    if o.t == "timeout" || o.t == "panic" || o.t == "disconnected" {
                        break;
                    }
                },
                Op::Write(len) => {
                    if let Some((p, enc)) = user_packet(&pool, *len, seed as usize + nwrites) {
                        nwrites += 1;
                        book.ev(json!({"ev": "WriteCall", "n": enc.len(), "id": nwrites}));
                        let r = tokio::time::timeout(READ_LIMIT, framed.write(p)).await;
                        let res = match r {
                            Ok(Ok(())) => "ok",
                            Ok(Err(_)) => "err",
                            Err(_) => "timeout",
                        };
                        book.ev(json!({"ev": "WriteDone", "id": nwrites, "res": res}));
                        let got = match srv.as_mut() {
                            Some(sv) => next_binary(sv).await,
                            None => None,
                        };
                        match got {
                            Some(b) => {
                                let ok = b[..] == enc[..];
                                book.ev(json!({"ev": "Unit", "n": b.len(), "ok": ok}));
                                if !ok && mismatch.is_none() {
                                    mismatch = Some(format!("the message received for a written packet is {:?}, expected {:?}", b, enc));
                                }
                            },
                            None => {
                                book.ev(json!({"ev": "Unit", "n": 0, "ok": false}));
                                if mismatch.is_none() {
                                    mismatch = Some("no binary message arrived for a written packet".into());
                                }
                            },
                        }
                    }
                },
                _ => {},
            }
        }
        SessionResult { events: book.sh.events.clone(), mismatch, skipped: None }
    })
}

/// ws under write-side back pressure: small socket buffers and a relay that does not read until the writer has stalled.
/// The application writes `count` packets back to back (after the stall the relay drains concurrently); afterwards every
/// message the relay received is compared, in order, with the frames written: one binary message per frame, none twice,
/// none missing.  Events: WriteCall / WriteDone per packet, then one Unit per message observed.
pub fn run_ws_burst(pool: Arc<Pool>, mode: &str, seed: u64, count: usize) -> SessionResult {
    use futures_util::StreamExt;
    use insim::net::{tokio_impl::{Framed, WebsocketStream}, Codec};
    use tokio_tungstenite::{tungstenite::Message, MaybeTlsStream};
    let rt = tokio::runtime::Builder::new_current_thread().enable_all().build().unwrap();
    rt.block_on(async {
        let mut book = Book::new(mode, pool.clone(), seed);
        let lsock = tokio::net::TcpSocket::new_v4().expect("socket");
        let _ = lsock.set_recv_buffer_size(4096);
        lsock.bind("127.0.0.1:0".parse().unwrap()).expect("bind");
        let listener = lsock.listen(4).expect("listen");
        let addr = listener.local_addr().unwrap();
        let url = format!("ws://127.0.0.1:{}/connect", addr.port());
        let server = async {
            let (tcp, _) = listener.accept().await.expect("accept");
            let _ = socket2::SockRef::from(&tcp).set_recv_buffer_size(4096);
            if std::env::var("LFSVERIF_DEBUG").is_ok() {
                eprintln!("server rcvbuf {:?}", socket2::SockRef::from(&tcp).recv_buffer_size());
            }
            tokio_tungstenite::accept_async(tcp).await.expect("ws accept")
        };
        let client = async {
            let csock = tokio::net::TcpSocket::new_v4().expect("socket");
            let _ = csock.set_send_buffer_size(4096);
            let tcp = csock.connect(addr).await.expect("connect");
            let _ = socket2::SockRef::from(&tcp).set_send_buffer_size(4096);
            if std::env::var("LFSVERIF_DEBUG").is_ok() {
                eprintln!("client sndbuf {:?}", socket2::SockRef::from(&tcp).send_buffer_size());
            }
            tokio_tungstenite::client_async(url, MaybeTlsStream::Plain(tcp)).await.expect("ws connect").0
        };
        let (mut srv, cli) = tokio::join!(server, client);
        let mut framed = Framed::new(Box::new(WebsocketStream::from(cli)), Codec::new(crate::frames::mode_of(mode)));
        book.ev(json!({"ev": "Reset", "transport": "ws", "flavor": "tokio", "verify": false, "mode": mode}));
        let big = pool.max_len();
        let mut expected: Vec<Vec<u8>> = Vec::new();
        let mut received: Vec<Vec<u8>> = Vec::new();
        let mut stalled = false;
        let mut stalls = 0usize;
        let mut mismatch = None;
        'writes: for i in 0..count {
            let len = if i % 7 == 3 { 4 } else { big };
            let (p, enc) = match user_packet(&pool, len, seed as usize + i).or_else(|| user_packet(&pool, 8, seed as usize + i)) {
                Some(x) => x,
                None => continue,
            };
            book.ev(json!({"ev": "WriteCall", "n": enc.len(), "id": i + 1}));
            expected.push(enc);
            let fut = framed.write(p);
            tokio::pin!(fut);
            let started = std::time::Instant::now();
            loop {
                tokio::select! {
                    r = &mut fut => {
                        let res = match r { Ok(()) => "ok", Err(_) => "err" };
                        book.ev(json!({"ev": "WriteDone", "id": i + 1, "res": res}));
                        if res != "ok" {
                            mismatch = Some("a write failed under back pressure".to_string());
                            break 'writes;
                        }
                        break;
                    },
                    _ = tokio::time::sleep(Duration::from_millis(80)), if !stalled => {
                        // the writer is blocked by the full socket buffers: from now on the relay reads
                        stalled = true;
                        stalls += 1;
                    },
                    m = srv.next(), if stalled => {
                        match m {
                            Some(Ok(Message::Binary(b))) => received.push(b.to_vec()),
                            Some(Ok(_)) => {},
                            _ => { mismatch = Some("the relay's stream ended during the burst".to_string()); break 'writes; },
                        }
                    },
                }
                if started.elapsed() > Duration::from_secs(20) {
                    book.ev(json!({"ev": "WriteDone", "id": i + 1, "res": "timeout"}));
                    mismatch = Some("a write did not complete under back pressure".to_string());
                    break 'writes;
                }
            }
            // let the relay fall behind again now and then, so that several stalls occur
            if stalled && i % 97 == 0 {
                stalled = false;
            }
        }
        // drain: everything that was written, and a little longer to see a message too many
        loop {
            let limit = if received.len() < expected.len() { Duration::from_millis(3000) } else { Duration::from_millis(300) };
            match tokio::time::timeout(limit, srv.next()).await {
                Ok(Some(Ok(Message::Binary(b)))) => received.push(b.to_vec()),
                Ok(Some(Ok(_))) => {},
                _ => break,
            }
            if received.len() > expected.len() + 8 {
                break;
            }
        }
        for (k, b) in received.iter().enumerate() {
            let ok = expected.get(k).map(|e| e == b).unwrap_or(false);
            book.ev(json!({"ev": "Unit", "n": b.len(), "ok": ok}));
            if !ok && mismatch.is_none() {
                mismatch = Some(format!("message {} received by the relay is not the frame of packet {}", k + 1, k + 1));
            }
        }
        for _ in received.len()..expected.len() {
            book.ev(json!({"ev": "Unit", "n": 0, "ok": false}));
        }
        book.ev(json!({"ev": "Skipped", "stalls": stalls, "written": expected.len(), "received": received.len()}));
        SessionResult { events: book.sh.events.clone(), mismatch, skipped: None }
    })
}

pub fn run(pool: Arc<Pool>, s: &Session, seed: u64) -> SessionResult {
    match (s.transport.as_str(), s.flavor.as_str()) {
        ("udp", "blocking") => run_udp_blocking(pool, s, seed),
        ("udp", _) => run_udp_tokio(pool, s, seed),
        _ => run_ws(pool, s, seed),
    }
}

// ------------------------------------------------------------------------------------- plans
/// spec -> impl: a TLC behaviour (steps) as a plan.  Peer steps that the model interleaves with a
/// pending read are performed before that read is issued (the kernel buffers them).
pub fn plan_from_steps(steps: &[Step]) -> Vec<Op> {
    let mut ops: Vec<Op> = Vec::new();
    let mut pending_reads: Vec<usize> = Vec::new(); // indices in ops of reads waiting for their result
    let mut i = 0;
    while i < steps.len() {
        let st = &steps[i];
        match st.a.as_str() {
            "dgram" => {
                let mut fs = vec![(st.n as usize, st.s.clone())];
                while i + 1 < steps.len() && steps[i + 1].a == "dgram+" {
                    i += 1;
                    fs.push((steps[i].n as usize, steps[i].s.clone()));
                }
                let at = pending_reads.first().copied().unwrap_or(ops.len());
                ops.insert(at, Op::Dgram(fs));
                for r in pending_reads.iter_mut() {
                    *r += 1;
                }
            },
            "send" | "wsmsg" | "close" => {
                let op = match st.a.as_str() {
                    "send" => Op::Send(st.n as usize, st.s.clone()),
                    "wsmsg" => Op::WsMsg(st.s.clone(), st.n as usize),
                    _ => Op::Close,
                };
                let at = pending_reads.first().copied().unwrap_or(ops.len());
                ops.insert(at, op);
                for r in pending_reads.iter_mut() {
                    *r += 1;
                }
            },
            "read" => {
                pending_reads.push(ops.len());
                ops.push(Op::Read(None));
            },
            "result" => {
                if let Some(idx) = pending_reads.pop() {
                    ops[idx] = Op::Read(Some((st.s.clone(), st.n as usize)));
                }
            },
            "wcall" => ops.push(Op::Write(st.n as usize)),
            _ => {},
        }
        i += 1;
    }
    // a read that never got its result in the behaviour (cannot happen for finished behaviours) is dropped
    ops.into_iter().filter(|o| !matches!(o, Op::Read(None))).collect()
}

/// impl -> spec: a seeded random plan.  `bytes_target` is the cumulative traffic to generate.
pub fn random_plan(transport: &str, pool: &Pool, seed: u64, bytes_target: usize, with_writes: bool) -> Vec<Op> {
    let mut rng = StdRng::seed_from_u64(seed);
    let mut ops = Vec::new();
    let max_frame = if pool.mode == "U" { 252 } else { 1020 };
    let lens: Vec<usize> = pool.by_len.keys().copied().filter(|l| *l <= max_frame).collect();
    let mut total = 0usize;
    let pick = |rng: &mut StdRng| -> (usize, String) {
        match rng.gen_range(0..10) {
            0 => (4, "ka".to_string()),
            1 => (4, "tiny".to_string()),
            2 => (4 * rng.gen_range(1..=(max_frame / 4)), "bad".to_string()),
            _ => (lens[rng.gen_range(0..lens.len())], "pkt".to_string()),
        }
    };
    if transport == "udp" {
        while total < bytes_target {
            // 1..n packets per datagram, at most 1020 bytes
            let mut fs: Vec<(usize, String)> = Vec::new();
            let mut size = 0usize;
            let want = match rng.gen_range(0..4) {
                0 => 1,
                1 => 2,
                2 => rng.gen_range(1..8),
                _ => 40,
            };
            for _ in 0..want {
                let (l, c) = pick(&mut rng);
                if size + l > 1020 {
                    break;
                }
                size += l;
                fs.push((l, c));
            }
            if fs.is_empty() {
                continue;
            }
            total += size;
            let n = fs.len();
            ops.push(Op::Dgram(fs));
            for _ in 0..n {
                ops.push(Op::Read(None));
            }
            if rng.gen_bool(0.06) || ops.len() == 9 {
                ops.push(Op::Quiet);
            }
            if with_writes && (rng.gen_bool(0.2) || ops.len() < 6) {
                // a third of the user writes (and the first ones of every session) are the largest frames of the mode:
                // a frame is one datagram however large it is
                let big: Vec<usize> = lens.iter().copied().filter(|l| *l > 200).collect();
                if !big.is_empty() && (rng.gen_bool(0.34) || ops.len() < 6) {
                    ops.push(Op::Write(big[rng.gen_range(0..big.len())]));
                } else {
                    ops.push(Op::Write(lens[rng.gen_range(0..lens.len())]));
                }
            }
        }
    } else {
        // ws: frames are appended to the relay's byte stream, which leaves in arbitrary binary messages
        let mut unpacked = 0usize; // bytes produced and not yet packed
        let mut frame_ends: VecDeque<usize> = VecDeque::new(); // remaining bytes until each frame end, cumulative
        let mut produced = 0usize;
        let mut packed = 0usize;
        let mut reads_due = 0usize;
        while total < bytes_target {
            let burst = rng.gen_range(1..5);
            for _ in 0..burst {
                let (l, c) = pick(&mut rng);
                ops.push(Op::Send(l, c));
                produced += l;
                unpacked += l;
                total += l;
                frame_ends.push_back(produced);
            }
            // now and then a long run of messages that carry no InSim data, all of them waiting when the next read is made
            if unpacked > 0 && rng.gen_bool(0.06) {
                for _ in 0..rng.gen_range(33..70) {
                    let kind = ["text", "ping", "empty"][rng.gen_range(0..3)];
                    ops.push(Op::WsMsg(kind.to_string(), 0));
                }
            }
            // pack some of it
            while unpacked > 0 && rng.gen_bool(0.8) {
                if rng.gen_bool(0.15) {
                    let kind = ["text", "ping", "empty"][rng.gen_range(0..3)];
                    ops.push(Op::WsMsg(kind.to_string(), 0));
                }
                let k = match rng.gen_range(0..5) {
                    0 => 1,
                    1 => rng.gen_range(1..=unpacked.min(7)),
                    2 => unpacked,
                    3 => rng.gen_range(1..=unpacked),
                    _ => rng.gen_range(1..=unpacked.min(2500)),
                };
                ops.push(Op::WsMsg("binary".to_string(), k));
                unpacked -= k;
                packed += k;
                while frame_ends.front().map(|e| *e <= packed).unwrap_or(false) {
                    let _ = frame_ends.pop_front();
                    reads_due += 1;
                }
                while reads_due > 0 && rng.gen_bool(0.7) {
                    ops.push(Op::Read(None));
                    reads_due -= 1;
                }
            }
            if with_writes && (rng.gen_bool(0.2) || ops.len() < 6) {
                // a third of the user writes (and the first ones of every session) are the largest frames of the mode:
                // a frame is one datagram however large it is
                let big: Vec<usize> = lens.iter().copied().filter(|l| *l > 200).collect();
                if !big.is_empty() && (rng.gen_bool(0.34) || ops.len() < 6) {
                    ops.push(Op::Write(big[rng.gen_range(0..big.len())]));
                } else {
                    ops.push(Op::Write(lens[rng.gen_range(0..lens.len())]));
                }
            }
        }
        if unpacked > 0 {
            ops.push(Op::WsMsg("binary".to_string(), unpacked));
            packed += unpacked;
            while frame_ends.front().map(|e| *e <= packed).unwrap_or(false) {
                let _ = frame_ends.pop_front();
                reads_due += 1;
            }
        }
        for _ in 0..reads_due {
            ops.push(Op::Read(None));
        }
        ops.push(Op::Close);
        ops.push(Op::Read(None));
    }
    ops
}

#[allow(dead_code)]
pub fn verdict_is_pkt(v: &Verdict) -> bool {
    matches!(v, Verdict::Pkt { .. })
}
