//! lfsverif: conformance harness binding the TLA+ specifications in /verif/spec to insim.rs.
mod abs;
mod builder;
mod conn;
mod files;
mod frames;
mod net;
mod text;
mod values;
mod wire;

use std::{
    collections::HashMap,
    io::{BufRead, Write},
    sync::Arc,
};

use serde_json::{json, Value};

#[global_allocator]
static GLOBAL: files::Counting = files::Counting;

fn arg_map(args: &[String]) -> HashMap<String, String> {
    let mut m = HashMap::new();
    let mut i = 0;
    while i < args.len() {
        if let Some(k) = args[i].strip_prefix("--") {
            let v = args.get(i + 1).cloned().unwrap_or_default();
            let _ = m.insert(k.to_string(), v);
            i += 2;
        } else {
            i += 1;
        }
    }
    m
}

/// conn-replay --in behaviours.ndjson [--seed n]
/// every behaviour is executed on the real connection in both size modes;
/// prints one JSON line per mismatch and a final summary line.
fn cmd_conn_replay(a: &HashMap<String, String>) -> i32 {
    let path = a.get("in").expect("--in");
    let seed: u64 = a.get("seed").and_then(|s| s.parse().ok()).unwrap_or(1);
    let only: Option<&String> = a.get("transport");
    let f = std::fs::File::open(path).expect("open behaviours");
    let pools: Vec<Arc<frames::Pool>> = vec![Arc::new(frames::Pool::new("C")), Arc::new(frames::Pool::new("U"))];
    let (mut n, mut ok, mut skipped, mut bad) = (0u64, 0u64, 0u64, 0u64);
    let mut skip_reasons: HashMap<String, u64> = HashMap::new();
    let out = std::io::stdout();
    let mut out = out.lock();
    for (lineno, line) in std::io::BufReader::new(f).lines().enumerate() {
        let line = line.unwrap();
        if line.trim().is_empty() {
            continue;
        }
        let v: Value = serde_json::from_str(&line).expect("behaviour json");
        let cfg = &v["cfg"];
        let transport = cfg["transport"].as_str().unwrap_or("stream");
        if let Some(t) = only {
            if t != transport {
                continue;
            }
        }
        let wsq = a.get("wsq").map(|s| s == "1").unwrap_or(false) && transport == "ws";
        if transport != "stream" && !wsq {
            continue; // datagram / websocket behaviours are replayed on real sockets (conn-net-replay)
        }
        let flavor = cfg["flavor"].as_str().unwrap_or("blocking");
        let verify = cfg["verify"].as_bool().unwrap_or(false);
        let steps = conn::parse_steps(&v["steps"]);
        for pool in pools.iter() {
            n += 1;
            let verdict = if flavor == "blocking" {
                conn::replay_blocking(pool.clone(), verify, steps.clone(), seed + lineno as u64)
            } else {
                conn::replay_tokio_on(pool.clone(), verify, steps.clone(), seed + lineno as u64, wsq)
            };
            match verdict {
                conn::ReplayVerdict::Ok => ok += 1,
                conn::ReplayVerdict::Skipped(m) => {
                    skipped += 1;
                    *skip_reasons.entry(m.split(" for frame").next().unwrap_or("").to_string()).or_default() += 1;
                },
                conn::ReplayVerdict::Mismatch(m) => {
                    bad += 1;
                    let _ = writeln!(
                        out,
                        "{}",
                        json!({"mismatch": m, "line": lineno + 1, "mode": pool.mode, "flavor": flavor, "verify": verify, "behaviour": v})
                    );
                },
            }
        }
    }
    let _ = writeln!(out, "{}", json!({"summary": {"executed": n, "ok": ok, "skipped": skipped, "mismatch": bad, "skip_reasons": skip_reasons}}));
    0
}

/// conn-trace --out file --seed n --sessions k --frames m [--flavor blocking|tokio|both] [--writes 1] [--cancels 1]
fn cmd_conn_trace(a: &HashMap<String, String>) -> i32 {
    let out = a.get("out").expect("--out");
    let seed: u64 = a.get("seed").and_then(|s| s.parse().ok()).unwrap_or(1);
    let sessions: u64 = a.get("sessions").and_then(|s| s.parse().ok()).unwrap_or(4);
    let frames_n: usize = a.get("frames").and_then(|s| s.parse().ok()).unwrap_or(200);
    let flavor = a.get("flavor").cloned().unwrap_or_else(|| "both".into());
    let writes = a.get("writes").map(|s| s == "1").unwrap_or(false);
    let cancels = a.get("cancels").map(|s| s == "1").unwrap_or(false);
    let pools: Vec<Arc<frames::Pool>> = vec![Arc::new(frames::Pool::new("C")), Arc::new(frames::Pool::new("U"))];
    let mut w = std::io::BufWriter::new(std::fs::File::create(out).expect("create trace"));
    let mut total = 0usize;
    // --chunks a,b,c : long pre-filled sessions read in fixed-size pieces
    let chunks: Vec<usize> = a.get("chunks").map(|s| s.split(',').filter_map(|x| x.parse().ok()).collect()).unwrap_or_default();
    for s in 0..sessions {
        let fl = match flavor.as_str() {
            "both" => {
                if s % 2 == 0 {
                    "blocking"
                } else {
                    "tokio"
                }
            },
            x => x,
        };
        let pool = pools[((s / 2) % 2) as usize].clone();
        let tc = conn::TraceCfg {
            flavor: fl.to_string(),
            mode: pool.mode.clone(),
            verify: (s / 4) % 2 == 0,
            frames: frames_n,
            seed: seed.wrapping_mul(1000).wrapping_add(s),
            writes,
            cancels: cancels && fl == "tokio",
            wseg: a.get("wseg").and_then(|s| s.parse().ok()),
            noka: a.get("noka").map(|s| s == "1").unwrap_or(false),
            kaheavy: a.get("kaheavy").map(|s| s == "1").unwrap_or(false),
            fixed: None,
            seg: if chunks.is_empty() { None } else { Some(6) },
            p_err: if chunks.is_empty() { None } else { Some(0.0) },
            chunk: if chunks.is_empty() { 0 } else { chunks[(s as usize) % chunks.len()] },
        };
        let evs = if fl == "blocking" { conn::trace_blocking(pool, &tc) } else { conn::trace_tokio(pool, &tc) };
        for e in evs {
            total += 1;
            let _ = writeln!(w, "{}", e);
        }
    }
    println!("{}", json!({"events": total, "sessions": sessions}));
    0
}

/// net-replay --in behaviours.ndjson : udp / ws behaviours from TLC on real loopback sockets
fn cmd_net_replay(a: &HashMap<String, String>) -> i32 {
    let path = a.get("in").expect("--in");
    let seed: u64 = a.get("seed").and_then(|s| s.parse().ok()).unwrap_or(1);
    let stride: usize = a.get("stride").and_then(|s| s.parse().ok()).unwrap_or(1).max(1);
    let f = std::fs::File::open(path).expect("open behaviours");
    let pools: Vec<Arc<frames::Pool>> = vec![Arc::new(frames::Pool::new("C")), Arc::new(frames::Pool::new("U"))];
    let (mut n, mut ok, mut skipped, mut bad) = (0u64, 0u64, 0u64, 0u64);
    let out = std::io::stdout();
    let mut out = out.lock();
    for (lineno, line) in std::io::BufReader::new(f).lines().enumerate() {
        let line = line.unwrap();
        if line.trim().is_empty() || (lineno + seed as usize) % stride != 0 {
            continue;
        }
        let v: Value = serde_json::from_str(&line).expect("behaviour json");
        let cfg = &v["cfg"];
        let transport = cfg["transport"].as_str().unwrap_or("udp").to_string();
        if transport == "stream" {
            continue;
        }
        let steps = conn::parse_steps(&v["steps"]);
        let plan = net::plan_from_steps(&steps);
        let pool = pools[lineno % 2].clone(); // alternate the size mode
        let s = net::Session {
            transport,
            flavor: cfg["flavor"].as_str().unwrap_or("tokio").to_string(),
            mode: pool.mode.clone(),
            verify: cfg["verify"].as_bool().unwrap_or(false),
            plan,
            refused: false,
        };
        n += 1;
        let r = net::run(pool.clone(), &s, seed + lineno as u64);
        if r.skipped.is_some() {
            skipped += 1;
        } else if let Some(m) = r.mismatch {
            bad += 1;
            let _ = writeln!(out, "{}", json!({"mismatch": m, "line": lineno + 1, "mode": s.mode, "flavor": s.flavor, "verify": s.verify, "behaviour": v, "events": r.events}));
            // a connection that stalls costs the full time limit per behaviour: a dozen mismatches decide the check
            if bad >= 12 {
                break;
            }
        } else {
            ok += 1;
        }
    }
    let _ = writeln!(out, "{}", json!({"summary": {"executed": n, "ok": ok, "skipped": skipped, "mismatch": bad}}));
    0
}

/// net-trace --transport udp|ws --out file --seed n --sessions k --bytes b [--writes 1]
fn cmd_net_trace(a: &HashMap<String, String>) -> i32 {
    let out = a.get("out").expect("--out");
    let transport = a.get("transport").cloned().unwrap_or_else(|| "udp".into());
    let seed: u64 = a.get("seed").and_then(|s| s.parse().ok()).unwrap_or(1);
    let sessions: u64 = a.get("sessions").and_then(|s| s.parse().ok()).unwrap_or(4);
    let bytes: usize = a.get("bytes").and_then(|s| s.parse().ok()).unwrap_or(20000);
    let writes = a.get("writes").map(|s| s == "1").unwrap_or(false);
    let pools: Vec<Arc<frames::Pool>> = vec![Arc::new(frames::Pool::new("C")), Arc::new(frames::Pool::new("U"))];
    let mut w = std::io::BufWriter::new(std::fs::File::create(out).expect("create trace"));
    let mut total = 0usize;
    for sn in 0..sessions {
        let flavor = if transport == "ws" || sn % 2 == 1 { "tokio" } else { "blocking" };
        let pool = pools[((sn / 2) % 2) as usize].clone();
        let sd = seed.wrapping_mul(1000).wrapping_add(sn);
        let s = net::Session {
            transport: transport.clone(),
            flavor: flavor.to_string(),
            mode: pool.mode.clone(),
            verify: sn % 3 == 0,
            plan: net::random_plan(&transport, &pool, sd, bytes, writes),
            refused: transport == "udp" && sn < 4,
        };
        let r = net::run(pool, &s, sd);
        for e in r.events {
            total += 1;
            let _ = writeln!(w, "{}", e);
        }
    }
    // ws: one session per size mode under write-side back pressure
    let burst: usize = a.get("burst").and_then(|s| s.parse().ok()).unwrap_or(0);
    let mut stalls = 0u64;
    if transport == "ws" && burst > 0 {
        for (k, pool) in pools.iter().enumerate() {
            let r = net::run_ws_burst(pool.clone(), &pool.mode.clone(), seed.wrapping_mul(77).wrapping_add(k as u64), burst);
            for e in r.events {
                if e["ev"] == "Skipped" {
                    stalls += e["stalls"].as_u64().unwrap_or(0);
                }
                total += 1;
                let _ = writeln!(w, "{}", e);
            }
        }
    }
    println!("{}", json!({"events": total, "sessions": sessions, "burst_stalls": stalls}));
    0
}

/// conn-sweep --what tiny|version --out file
fn cmd_conn_sweep(a: &HashMap<String, String>) -> i32 {
    let out = a.get("out").expect("--out");
    let what = a.get("what").cloned().unwrap_or_else(|| "tiny".into());
    let seed: u64 = a.get("seed").and_then(|s| s.parse().ok()).unwrap_or(1);
    let per: usize = a.get("per").and_then(|s| s.parse().ok()).unwrap_or(400);
    let half = a.get("half").map(|s| s == "1").unwrap_or(false);
    let (evs, info) = conn::sweep(&what, seed, per, half);
    let mut w = std::io::BufWriter::new(std::fs::File::create(out).expect("create trace"));
    for e in evs {
        let _ = writeln!(w, "{}", e);
    }
    println!("{}", info);
    0
}

/// A tracing subscriber that enables every level and discards everything: the library is exercised the way it runs under
/// RUST_LOG=trace (field expressions of its log statements are evaluated), which must not change what it does.
struct Sink;
impl tracing::Subscriber for Sink {
    fn enabled(&self, _m: &tracing::Metadata<'_>) -> bool {
        true
    }
    fn new_span(&self, _s: &tracing::span::Attributes<'_>) -> tracing::span::Id {
        tracing::span::Id::from_u64(1)
    }
    fn record(&self, _s: &tracing::span::Id, _v: &tracing::span::Record<'_>) {}
    fn record_follows_from(&self, _s: &tracing::span::Id, _f: &tracing::span::Id) {}
    fn event(&self, _e: &tracing::Event<'_>) {}
    fn enter(&self, _s: &tracing::span::Id) {}
    fn exit(&self, _s: &tracing::span::Id) {}
}

fn main() {
    frames::quiet_panics();
    if std::env::var("LFSVERIF_NO_TRACING").is_err() {
        let _ = tracing::subscriber::set_global_default(Sink);
    }
    let args: Vec<String> = std::env::args().collect();
    let cmd = args.get(1).map(|s| s.as_str()).unwrap_or("");
    let a = arg_map(&args[2.min(args.len())..]);
    let code = match cmd {
        "kinds" => {
            for k in abs::KINDS {
                println!("{k}");
            }
            0
        },
        "conn-replay" => cmd_conn_replay(&a),
        "conn-trace" => cmd_conn_trace(&a),
        "conn-sweep" => cmd_conn_sweep(&a),
        "net-replay" => cmd_net_replay(&a),
        "wire-replay" => wire::cmd_wire_replay(&a),
        "wire-fuzz" => wire::cmd_wire_fuzz(&a),
        "wire-cross" => wire::cmd_wire_cross(&a),
        "wire-dec" => wire::cmd_wire_dec(&a),
        "builder-replay" => builder::cmd_builder_replay(&a),
        "files-replay" => files::cmd_files_replay(&a),
        "text-replay" => text::cmd_text_replay(&a),
        "text-trace" => text::cmd_text_trace(&a),
        "text-fields" => text::cmd_text_fields(&a),
        "text-dbcs" => text::cmd_text_dbcs(&a),
        "values-replay" => values::cmd_values_replay(&a),
        "values-trace" => values::cmd_values_trace(&a),
        "values-rerun" => values::cmd_values_rerun(&a),
        "net-trace" => cmd_net_trace(&a),
        _ => {
            eprintln!("usage: lfsverif <command> ...");
            2
        },
    };
    std::process::exit(code);
}
