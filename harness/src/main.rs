//! lfsverif: conformance harness binding the TLA+ specifications in /verif/spec to insim.rs.
mod abs;

fn main() {
    let args: Vec<String> = std::env::args().collect();
    let cmd = args.get(1).map(|s| s.as_str()).unwrap_or("");
    match cmd {
        "kinds" => {
            for k in abs::KINDS {
                println!("{k}");
            }
        },
        _ => {
            eprintln!("usage: lfsverif <command> ...");
            std::process::exit(2);
        },
    }
}
