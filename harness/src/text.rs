//! C10 / C11 / C12: text conversion events recorded from the real code for Trace_Text.
use std::{
    collections::HashMap,
    io::{BufRead, Write},
};

use insim::core::string::{codepages, colours, escaping};
use rand::{rngs::StdRng, Rng, SeedableRng};
use serde_json::{json, Value};

use crate::{
    abs::{cps, Abs},
    frames::{standalone, try_encode},
};

fn guard<T>(f: impl FnOnce() -> T) -> Result<T, ()> {
    std::panic::catch_unwind(std::panic::AssertUnwindSafe(f)).map_err(|_| ())
}
fn to_string(v: &Value) -> String {
    v.as_array().map(|a| a.iter().filter_map(|x| char::from_u32(x.as_u64().unwrap_or(63) as u32)).collect()).unwrap_or_default()
}
fn to_bytes(v: &Value) -> Vec<u8> {
    v.as_array().map(|a| a.iter().map(|x| x.as_u64().unwrap_or(0) as u8).collect()).unwrap_or_default()
}
fn panic_ev(f: &str, input: Value) -> Value {
    json!({"ev": "Panic", "fn": f, "in": input})
}

fn esc_events(s: &str, encodable: bool, w: &mut impl Write) -> usize {
    let inp = cps(s);
    let mut n = 0;
    let mut put = |v: Value| {
        let _ = writeln!(w, "{}", v);
        n += 1;
    };
    match guard(|| escaping::escape(s).to_string()) {
        Ok(e) => put(json!({"ev": "Esc", "in": inp, "out": cps(&e)})),
        Err(()) => put(panic_ev("escape", inp.clone())),
    }
    match guard(|| escaping::unescape(s).to_string()) {
        Ok(e) => put(json!({"ev": "Unesc", "in": inp, "out": cps(&e)})),
        Err(()) => put(panic_ev("unescape", inp.clone())),
    }
    match guard(|| {
        let a = colours::strip(s).to_string();
        let b = colours::strip(&a).to_string();
        (a, b)
    }) {
        Ok((a, b)) => put(json!({"ev": "Strip", "in": inp, "out": cps(&a), "twice": cps(&b)})),
        Err(()) => put(panic_ev("strip", inp.clone())),
    }
    {
        use colours::Colourify;
        let all: [(&str, fn(&str) -> String); 9] = [
            ("black", |x| x.black()),
            ("red", |x| x.red()),
            ("light_green", |x| x.light_green()),
            ("yellow", |x| x.yellow()),
            ("blue", |x| x.blue()),
            ("purple", |x| x.purple()),
            ("light_blue", |x| x.light_blue()),
            ("white", |x| x.white()),
            ("dark_green", |x| x.dark_green()),
        ];
        // one helper per string (rotating), all nine for the short ones
        let pick = s.chars().map(|c| c as usize).sum::<usize>() % 9;
        for (i, (name, f)) in all.iter().enumerate() {
            if i != pick && s.chars().count() > 2 {
                continue;
            }
            match guard(|| {
                let c = f(s);
                let st = colours::strip(&c).to_string();
                (c, st)
            }) {
                Ok((c, st)) => put(json!({"ev": "Colour", "name": name, "in": inp, "out": cps(&c), "stripped": cps(&st)})),
                Err(()) => put(panic_ev("colourify", inp.clone())),
            }
        }
    }
    if encodable {
        match guard(|| {
            let e = escaping::escape(s).to_string();
            let b = codepages::to_lossy_bytes(&e).to_vec();
            let d = codepages::to_lossy_string(&b).to_string();
            let back = escaping::unescape(&d).to_string();
            (e, b, back)
        }) {
            Ok((e, b, back)) => put(json!({"ev": "E2E", "in": inp, "escaped": cps(&e), "bytes": b, "back": cps(&back)})),
            Err(()) => put(panic_ev("e2e", inp.clone())),
        }
    }
    // the encoder on caret-free text, and on text whose carets are all part of ^^ or ^digit (sequences LFS keeps in the
    // text, so that what LFS reads back is the text itself - with ^8 returning to Latin-1)
    if carets_benign(s) {
        match guard(|| codepages::to_lossy_bytes(s).to_vec()) {
            Ok(b) => put(json!({"ev": "CpEnc", "in": inp, "out": b})),
            Err(()) => put(panic_ev("to_lossy_bytes", inp)),
        }
    }
    n
}

fn carets_benign(s: &str) -> bool {
    let c: Vec<char> = s.chars().collect();
    let mut i = 0;
    while i < c.len() {
        if c[i] == '^' {
            if i + 1 < c.len() && (c[i + 1] == '^' || c[i + 1].is_ascii_digit()) {
                i += 2;
                continue;
            }
            return false;
        }
        i += 1;
    }
    true
}

fn dec_event(b: &[u8]) -> Value {
    match guard(|| codepages::to_lossy_string(b).to_string()) {
        Ok(s) => json!({"ev": "CpDec", "in": b, "out": cps(&s)}),
        Err(()) => panic_ev("to_lossy_string", json!(b)),
    }
}

/// text-replay --in txt.ndjson --out trace.ndjson : the inputs TLC enumerated through the real functions
pub fn cmd_text_replay(a: &HashMap<String, String>) -> i32 {
    let path = a.get("in").expect("--in");
    let out = a.get("out").expect("--out");
    let mut w = std::io::BufWriter::new(std::fs::File::create(out).expect("create"));
    let mut n = 0usize;
    for line in std::io::BufReader::new(std::fs::File::open(path).expect("open")).lines() {
        let v: Value = serde_json::from_str(&line.unwrap()).expect("json");
        match v["t"].as_str() {
            Some("esc") => n += esc_events(&to_string(&v["in"]), v["encodable"].as_bool().unwrap_or(false), &mut w),
            Some("dec") => {
                let _ = writeln!(w, "{}", dec_event(&to_bytes(&v["bytes"])));
                n += 1;
            },
            _ => {},
        }
    }
    println!("{}", json!({"events": n}));
    0
}

/// the characters the specification's tables know: (code point) pool for random text
fn repertoire(spec_pairs: &str) -> Vec<char> {
    let mut v: Vec<char> = Vec::new();
    for c in 0x20u32..0x7f {
        v.push(char::from_u32(c).unwrap());
    }
    // single-byte pages via the code's own tables is not allowed (oracle independence): use a fixed list of
    // characters that the generated LfsCodepages module contains (passed in by the orchestrator)
    for t in spec_pairs.split(',') {
        if let Ok(c) = t.trim().parse::<u32>() {
            if let Some(ch) = char::from_u32(c) {
                v.push(ch);
            }
        }
    }
    v
}

/// text-trace --out trace.ndjson --seed n --count k --chars "cp,cp,..." : random longer strings
pub fn cmd_text_trace(a: &HashMap<String, String>) -> i32 {
    let out = a.get("out").expect("--out");
    let seed: u64 = a.get("seed").and_then(|s| s.parse().ok()).unwrap_or(1);
    let count: usize = a.get("count").and_then(|s| s.parse().ok()).unwrap_or(5000);
    let chars = std::fs::read_to_string(a.get("chars").expect("--chars")).unwrap_or_default();
    let pool = repertoire(&chars);
    let mut rng = StdRng::seed_from_u64(seed);
    let mut w = std::io::BufWriter::new(std::fs::File::create(out).expect("create"));
    let mut n = 0usize;
    for i in 0..count {
        let len = rng.gen_range(0..40);
        let mut s = String::new();
        for _ in 0..len {
            let c = match rng.gen_range(0..10) {
                0 => '^',
                1 => ['0', '8', '9', 'L', 'C', 'J', 'v', '|', '/', '?'][rng.gen_range(0..10)],
                2 => char::from_u32(rng.gen_range(0x20..0x7f)).unwrap(),
                3 if i % 3 == 0 => ['\u{1F600}', '\u{0E01}', '\u{05D0}'][rng.gen_range(0..3)], // in no LFS code page
                _ => pool[rng.gen_range(0..pool.len())],
            };
            s.push(c);
        }
        let encodable = !s.chars().any(|c| matches!(c, '\u{1F600}' | '\u{0E01}' | '\u{05D0}'));
        n += esc_events(&s, encodable, &mut w);
        // a caret-free variant for the plain code page round trip
        let plain: String = s.chars().filter(|c| *c != '^').collect();
        match guard(|| codepages::to_lossy_bytes(&plain).to_vec()) {
            Ok(b) => {
                let _ = writeln!(w, "{}", json!({"ev": "CpEnc", "in": cps(&plain), "out": b}));
            },
            Err(()) => {
                let _ = writeln!(w, "{}", panic_ev("to_lossy_bytes", cps(&plain)));
            },
        }
        n += 1;
        // random bytes: totality of the decoder
        let bl = rng.gen_range(0..24);
        let bytes: Vec<u8> = (0..bl).map(|_| if rng.gen_bool(0.2) { b'^' } else { rng.gen() }).collect();
        if guard(|| codepages::to_lossy_string(&bytes).to_string()).is_err() {
            let _ = writeln!(w, "{}", panic_ev("to_lossy_string", json!(bytes)));
            n += 1;
        }
    }
    // texts whose code page bytes begin like a byte-order mark, with and without carets elsewhere in the text (a decoder that
    // sniffs for a BOM - on any of its paths - re-reads them as UTF-16 / UTF-8)
    for pre in ["\u{ff}\u{fe}", "\u{fe}\u{ff}", "\u{ef}\u{bb}\u{bf}"] {
        for rest in ["", "ab", "abcd", "a|b", "\u{e9}\u{448}", "^1x", "x/y"] {
            let s = format!("{pre}{rest}");
            n += esc_events(&s, true, &mut w);
            match guard(|| codepages::to_lossy_bytes(&s).to_vec()) {
                Ok(b) => {
                    let _ = writeln!(w, "{}", json!({"ev": "CpEnc", "in": cps(&s), "out": b}));
                    n += 1;
                },
                Err(()) => {},
            }
        }
    }
    println!("{}", json!({"events": n}));
    0
}

// ------------------------------------------------------------------------------------ C11 text fields
struct FieldSpec {
    kind: &'static str,
    field: &'static str,
    rule: &'static str,
    n: usize,
    raw: bool,
}
const FIELDS: &[FieldSpec] = &[
    FieldSpec { kind: "Isi", field: "admin", rule: "fixed", n: 16, raw: true },
    FieldSpec { kind: "Isi", field: "iname", rule: "fixed", n: 16, raw: false },
    FieldSpec { kind: "Ver", field: "product", rule: "fixed", n: 6, raw: false },
    FieldSpec { kind: "Ism", field: "hname", rule: "fixed", n: 32, raw: false },
    FieldSpec { kind: "Mst", field: "msg", rule: "fixednul", n: 64, raw: false },
    FieldSpec { kind: "Msx", field: "msg", rule: "fixednul", n: 96, raw: false },
    FieldSpec { kind: "Msl", field: "msg", rule: "fixednul", n: 128, raw: false },
    FieldSpec { kind: "Ncn", field: "uname", rule: "fixed", n: 24, raw: false },
    FieldSpec { kind: "Ncn", field: "pname", rule: "fixed", n: 24, raw: false },
    FieldSpec { kind: "Cpr", field: "pname", rule: "fixed", n: 24, raw: false },
    FieldSpec { kind: "Cpr", field: "plate", rule: "fixed", n: 8, raw: false },
    FieldSpec { kind: "Npl", field: "pname", rule: "fixed", n: 24, raw: false },
    FieldSpec { kind: "Npl", field: "plate", rule: "fixed", n: 8, raw: false },
    FieldSpec { kind: "Npl", field: "sname", rule: "fixed", n: 16, raw: false },
    FieldSpec { kind: "Res", field: "uname", rule: "fixed", n: 24, raw: false },
    FieldSpec { kind: "Res", field: "plate", rule: "fixed", n: 8, raw: false },
    FieldSpec { kind: "Axi", field: "lname", rule: "fixed", n: 32, raw: false },
    FieldSpec { kind: "Btt", field: "text", rule: "fixed", n: 96, raw: false },
    FieldSpec { kind: "Rip", field: "rname", rule: "fixed", n: 64, raw: false },
    FieldSpec { kind: "Ssh", field: "name", rule: "fixed", n: 32, raw: false },
    FieldSpec { kind: "RelaySel", field: "hname", rule: "fixed", n: 32, raw: false },
    FieldSpec { kind: "RelaySel", field: "admin", rule: "fixed", n: 16, raw: false },
    FieldSpec { kind: "RelaySel", field: "spec", rule: "fixed", n: 16, raw: false },
    FieldSpec { kind: "Mso", field: "msg", rule: "var", n: 128, raw: false },
    FieldSpec { kind: "Iii", field: "msg", rule: "var", n: 64, raw: false },
    FieldSpec { kind: "Mtc", field: "text", rule: "varnul", n: 128, raw: false },
    FieldSpec { kind: "Btn", field: "text", rule: "var", n: 240, raw: false },
    FieldSpec { kind: "Acr", field: "text", rule: "var", n: 64, raw: false },
];

fn packet_with_text(kind: &str, field: &str, text: &str) -> Option<insim::Packet> {
    let base = crate::abs::default_packets().into_iter().find(|p| crate::abs::kind_of(p) == kind)?;
    let mut a = base.to_abs();
    a["rec"][field] = cps(text);
    if kind == "Ver" {
        a["rec"]["version"] = cps("0.7E");
    }
    insim::Packet::from_abs(&a).ok()
}

/// text-fields --out trace.ndjson --tier quick|thorough
pub fn cmd_text_fields(a: &HashMap<String, String>) -> i32 {
    let out = a.get("out").expect("--out");
    let thorough = a.get("tier").map(|t| t == "thorough").unwrap_or(false);
    let mut w = std::io::BufWriter::new(std::fs::File::create(out).expect("create"));
    let mut n = 0usize;
    // "switching": a code page switch at every character; "dbcs-caret": double-byte characters whose trail byte is '^' (an
    // ordinary lead byte and one of the IBM extension rows) followed by code page letters
    // (name, what the text starts with, the unit that is repeated after it)
    let flavours: [(&str, &str, &str); 13] = [
        ("ascii", "", "a"),
        ("latin1", "", "\u{e9}"),
        ("cyrillic", "", "\u{448}"),
        ("dbcs", "", "\u{ff0f}"),
        ("mixed", "", "a\u{448}\u{e9}"),
        ("switching", "", "\u{11b}\u{448}"),
        ("dbcs-caret", "", "\u{ff0f}L\u{9348}K"),
        // caret sequences LFS keeps in the text, between characters of different code pages (^^8 is not "back to Latin-1")
        ("carets", "", "\u{448}^^8\u{e9}^8\u{448}^^"),
        // texts whose code page bytes begin like a byte-order mark (FF FE, FE FF, EF BB BF), at the start of the field and at
        // the start of a code page segment: they are ordinary characters of their page
        ("bom-le", "\u{ff}\u{fe}", "a"),
        ("bom-be", "\u{fe}\u{ff}", "a"),
        ("bom-utf8", "\u{ef}\u{bb}\u{bf}", "a"),
        ("bom-cyrillic", "\u{44f}\u{44e}", "\u{448}"),
        ("bom-segment", "a\u{44f}\u{44e}b\u{11b}\u{ff}\u{fe}", "c"),
    ];
    for f in FIELDS {
        // where does the field start ? first byte that changes between an empty and a non-empty text
        let (p0, p1) = match (packet_with_text(f.kind, f.field, ""), packet_with_text(f.kind, f.field, "Z")) {
            (Some(a), Some(b)) => (a, b),
            _ => continue,
        };
        let (b0, b1) = match (try_encode("U", &p0), try_encode("U", &p1)) {
            (Ok(a), Ok(b)) => (a, b),
            _ => {
                let _ = writeln!(w, "{}", json!({"ev": "Panic", "fn": "encode", "in": [f.kind, f.field]}));
                n += 1;
                continue;
            },
        };
        let off = match (0..b0.len().min(b1.len())).find(|i| b0[*i] != b1[*i] && *i > 0) {
            Some(o) => o,
            None => b0.len(), // variable field that was empty: it starts at the end of the empty frame
        };
        // variable fields: well beyond the cap also in the quick tier (lengths above 252 wrap 8-bit arithmetic)
        let maxlen = if thorough { 2 * f.n } else if f.rule.starts_with("var") { f.n + 24 } else { f.n + 2 };
        for (fl, pre, unit) in flavours.iter() {
            if f.raw && *fl != "ascii" {
                continue;
            }
            let mut k = 0usize;
            loop {
                let text: String = format!("{pre}{}", unit.repeat(k));
                let enc: Vec<u8> = if f.raw { text.as_bytes().to_vec() } else { codepages::to_lossy_bytes(&text).to_vec() };
                if enc.len() > maxlen + 4 {
                    break;
                }
                let step = if thorough || enc.len() + 6 >= f.n || k < 6 { 1 } else { 7 };
                if let Some(p) = packet_with_text(f.kind, f.field, &text) {
                    // C03 on frames whose text is not ASCII: one well-formed frame in either size mode (or a loud refusal)
                    for mode in ["U", "C"] {
                        let ev = match try_encode(mode, &p) {
                            Ok(frame) => {
                                let mut back_text = json!([]);
                                let mut reenc = false;
                                let (consumed, back) = match standalone(mode, &frame) {
                                    (crate::frames::Verdict::Pkt { consumed, .. }, Some(q)) => {
                                        back_text = q.to_abs()["rec"][f.field].clone();
                                        reenc = try_encode(mode, &q).map(|b| b == frame).unwrap_or(false);
                                        (consumed as i64, crate::abs::kind_of(&q).to_string())
                                    },
                                    (crate::frames::Verdict::DecodeErr { consumed }, _) => (consumed as i64, "decode-error".to_string()),
                                    _ => (-1, "none".to_string()),
                                };
                                // does the whole text fit its field ?  (then it must come back unchanged: C01 for non-ASCII text)
                                let cap = match f.rule {
                                    "fixed" | "var" => f.n,
                                    _ => f.n - 1,
                                };
                                json!({"ev": "Frame", "kind": f.kind, "name": f.field, "mode": mode, "flavour": fl, "enclen": enc.len(), "res": "ok",
                                       "bytes": frame, "consumed": consumed, "back": back, "text": cps(&text), "back_text": back_text,
                                       "fits": enc.len() <= cap && !f.raw, "reenc": reenc})
                            },
                            Err(e) => json!({"ev": "Frame", "kind": f.kind, "name": f.field, "mode": mode, "flavour": fl, "enclen": enc.len(),
                                             "res": if e.starts_with("err") { "err" } else { "panic" }, "bytes": [], "consumed": 0, "back": "none"}),
                        };
                        let _ = writeln!(w, "{}", ev);
                        n += 1;
                    }
                    match try_encode("U", &p) {
                        Ok(frame) => {
                            let field: Vec<u8> = if f.rule.starts_with("fixed") { frame[off.min(frame.len())..(off + f.n).min(frame.len())].to_vec() } else { frame[off.min(frame.len())..].to_vec() };
                            let _ = writeln!(w, "{}", json!({"ev": "Field", "kind": f.kind, "name": f.field, "rule": f.rule, "n": f.n, "flavour": fl,
                                                             "text": cps(&text), "enc": enc, "field": field}));
                            n += 1;
                            // ... and what the decoder makes of that field (a text cut inside a double-byte character ends
                            // in a lone lead byte followed by the terminator: decoding stops at the first NUL all the same)
                            if !f.raw {
                                match standalone("U", &frame) {
                                    (crate::frames::Verdict::Pkt { .. }, Some(q)) => {
                                        let got = q.to_abs()["rec"][f.field].clone();
                                        let _ = writeln!(w, "{}", json!({"ev": "FieldDec", "kind": f.kind, "name": f.field, "field": field, "text": got}));
                                        n += 1;
                                        // the same frame with another frame waiting behind it in the buffer (a field that fills
                                        // its frame has no terminator: the text ends where the FRAME ends)
                                        let mut two = frame.clone();
                                        two.extend_from_slice(&[4, 3, 65, 3]);
                                        if let (crate::frames::Verdict::Pkt { .. }, Some(q2)) = standalone("U", &two) {
                                            let got2 = q2.to_abs()["rec"][f.field].clone();
                                            if got2 != got {
                                                let _ = writeln!(w, "{}", json!({"ev": "FieldDec", "kind": f.kind, "name": f.field, "field": field, "text": got2, "followed": true}));
                                                n += 1;
                                            }
                                        } else {
                                            let _ = writeln!(w, "{}", json!({"ev": "Panic", "fn": "decode-own-frame-followed", "in": [f.kind, f.field, k]}));
                                            n += 1;
                                        }
                                    },
                                    (v, _) => {
                                        let _ = writeln!(w, "{}", json!({"ev": "Panic", "fn": "decode-own-frame", "in": [f.kind, f.field, k], "why": format!("{:?}", v)}));
                                        n += 1;
                                    },
                                }
                            }
                        },
                        Err(e) => {
                            // a text that makes the frame too long may be refused; anything else is reported
                            if !(e.starts_with("err") || frame_would_overflow(f, enc.len())) {
                                let _ = writeln!(w, "{}", json!({"ev": "Panic", "fn": "encode", "in": [f.kind, f.field, k], "why": e}));
                                n += 1;
                            }
                        },
                    }
                }
                k += step;
            }
        }
        // decoding stops at the first NUL: put a NUL inside the field of a valid frame
        if let Some(p) = packet_with_text(f.kind, f.field, "abcdefgh") {
            if let Ok(mut frame) = try_encode("U", &p) {
                for cut in [0usize, 1, 3, 5] {
                    if off + cut < frame.len() {
                        let mut fr = frame.clone();
                        fr[off + cut] = 0;
                        let field: Vec<u8> = if f.rule.starts_with("fixed") { fr[off..(off + f.n).min(fr.len())].to_vec() } else { fr[off..].to_vec() };
                        if let (_, Some(q)) = standalone("U", &fr) {
                            let got = q.to_abs()["rec"][f.field].clone();
                            let _ = writeln!(w, "{}", json!({"ev": "FieldDec", "kind": f.kind, "name": f.field, "field": field, "text": got}));
                            n += 1;
                        }
                    }
                }
                frame.clear();
            }
        }
    }
    // IS_VER's version is not a string but a parsed game version that is printed into 8 bytes: versions whose printed form
    // has 8 characters and more (long revisions, numbers with many digits)
    for text in ["0.7E", "0.7E123", "0.7E1234", "0.7E12345", "0.7F123456789", "0.70000005A", "12345678", "1234567.5Z9"] {
        let base = crate::abs::default_packets().into_iter().find(|p| crate::abs::kind_of(p) == "Ver");
        let p = base.and_then(|b| {
            let mut a = b.to_abs();
            a["rec"]["version"] = cps(text);
            insim::Packet::from_abs(&a).ok()
        });
        if let Some(p) = p {
            for mode in ["U", "C"] {
                let ev = match try_encode(mode, &p) {
                    Ok(frame) => {
                        let (consumed, back) = match standalone(mode, &frame) {
                            (crate::frames::Verdict::Pkt { consumed, .. }, Some(q)) => (consumed as i64, crate::abs::kind_of(&q).to_string()),
                            (crate::frames::Verdict::DecodeErr { consumed }, _) => (consumed as i64, "decode-error".to_string()),
                            _ => (-1, "none".to_string()),
                        };
                        json!({"ev": "Frame", "kind": "Ver", "name": "version", "mode": mode, "flavour": "version", "enclen": text.len(), "res": "ok",
                               "bytes": frame, "consumed": consumed, "back": back, "text": cps(text), "back_text": [], "fits": false, "reenc": false})
                    },
                    Err(e) => json!({"ev": "Frame", "kind": "Ver", "name": "version", "mode": mode, "flavour": "version", "enclen": text.len(),
                                     "res": if e.starts_with("err") { "err" } else { "panic" }, "bytes": [], "consumed": 0, "back": "none",
                                     "text": cps(text), "back_text": [], "fits": false, "reenc": false}),
                };
                let _ = writeln!(w, "{}", ev);
                n += 1;
            }
        }
    }
    n += mso_events(&mut w);
    println!("{}", json!({"events": n, "fields": FIELDS.len()}));
    0
}

/// IS_MSO carries "name: text" as ONE LFS string plus the byte offset where the text starts.  Frames are built the way
/// LFS builds them (one encoded string, offset = encoded length of the name part) and decoded by the real code.
fn mso_events(w: &mut impl Write) -> usize {
    let mut n = 0;
    let names = ["Bob", "\u{11b}\u{161}", "\u{11b}\u{11b}\u{11b}", "\u{448}\u{448}", "\u{ff0f}a", "^1R\u{e9}d", ""];
    let texts = [" : hi", "\u{11b}\u{161} ok", "\u{448}!", "\u{e9}t\u{e9}", "plain", "\u{ff0f}\u{ff0f}"];
    for name in names {
        for text in texts {
            let whole = format!("{name}{text}");
            let enc_whole = codepages::to_lossy_bytes(&whole).to_vec();
            let enc_name = codepages::to_lossy_bytes(name).to_vec();
            if !enc_whole.starts_with(&enc_name) || enc_whole.len() > 120 {
                continue; // the name's encoding must be a prefix of the whole string's encoding (left-to-right encoder)
            }
            let ts = enc_name.len();
            let mut body = enc_whole.clone();
            let padded = (body.len() + 4) & !3;
            body.resize(padded, 0);
            let len = 8 + body.len();
            let mut frame = vec![len as u8, 11, 0, 0, 3, 7, 1, ts as u8];
            frame.extend_from_slice(&body);
            let mut e = json!({"ev": "MsoDec", "enc": enc_whole, "ts": ts, "whole": cps(&whole), "name": cps(name), "frame": frame});
            match standalone("U", &frame) {
                (_, Some(p)) => {
                    let a = p.to_abs();
                    e["msg"] = a["rec"]["msg"].clone();
                    e["textstart"] = a["rec"]["textstart"].clone();
                    e["res"] = json!("ok");
                    match try_encode("U", &p) {
                        Ok(b) => {
                            e["re"] = json!(b);
                            e["re_res"] = json!("ok");
                        },
                        Err(x) => {
                            e["re"] = json!([]);
                            e["re_res"] = json!(x);
                        },
                    }
                },
                (v, None) => {
                    e["res"] = json!(format!("{:?}", v));
                    e["msg"] = json!([]);
                    e["textstart"] = json!(0);
                    e["re"] = json!([]);
                    e["re_res"] = json!("n/a");
                },
            }
            let _ = writeln!(w, "{}", e);
            n += 1;
        }
    }
    n
}

fn frame_would_overflow(_f: &FieldSpec, _enc_len: usize) -> bool {
    false
}

/// text-dbcs --table dbcs_full.json --out trace.ndjson : every defined pair of the complete double-byte tables,
/// decoded after its marker (CpDec) and its character encoded (CpEnc)
pub fn cmd_text_dbcs(a: &HashMap<String, String>) -> i32 {
    let table = a.get("table").expect("--table");
    let out = a.get("out").expect("--out");
    let rows: Vec<Value> = serde_json::from_str(&std::fs::read_to_string(table).expect("read table")).expect("json");
    let mut w = std::io::BufWriter::new(std::fs::File::create(out).expect("create"));
    let mut n = 0usize;
    for r in rows.iter() {
        let letter = r[0].as_str().unwrap_or("J").as_bytes()[0];
        let lead = r[1].as_u64().unwrap_or(0) as u8;
        let trail = r[2].as_u64().unwrap_or(0) as u8;
        let cp = r[3].as_u64().unwrap_or(63) as u32;
        if trail == 0 {
            let _ = writeln!(w, "{}", dec_event(&[b'^', letter, lead, b'A']));
        } else {
            let _ = writeln!(w, "{}", dec_event(&[b'^', letter, lead, trail, b'A']));
        }
        n += 1;
        if let Some(ch) = char::from_u32(cp) {
            let s: String = [ch, 'x'].iter().collect();
            match guard(|| codepages::to_lossy_bytes(&s).to_vec()) {
                Ok(b) => {
                    let _ = writeln!(w, "{}", json!({"ev": "CpEnc", "in": cps(&s), "out": b}));
                },
                Err(()) => {
                    let _ = writeln!(w, "{}", panic_ev("to_lossy_bytes", cps(&s)));
                },
            }
            n += 1;
        }
    }
    // the scanning rule around every possible lead byte: in a double-byte page a lead byte consumes its trail byte
    // unexamined - also when the trail is a caret and a marker letter / digit / caret follows - and a lead byte at the
    // end of the input or before a NUL must not panic
    for letter in [b'J', b'S', b'K', b'H'] {
        for lead in 0x80u8..=0xFF {
            for follow in *b"LGCETBJSKH89^a" {
                let _ = writeln!(w, "{}", dec_event(&[b'^', letter, lead, b'^', follow, 0xC0, b'z']));
                n += 1;
            }
            for tail in [&[][..], &[b'^'][..], &[b'^', b'^'][..], &[0x40, b'^', b'E', 0xE9][..]] {
                let mut b = vec![b'^', letter, lead];
                b.extend_from_slice(tail);
                let _ = writeln!(w, "{}", dec_event(&b));
                n += 1;
            }
        }
    }
    // encoder state x character: every character of the pool after a character of every code page (the page in force when a
    // character is met decides which pages are tried and whether a marker is needed)
    let prefixes = ["", "\u{e9}", "\u{3b1}", "\u{448}", "\u{11b}", "\u{11f}", "\u{101}", "\u{7f8e}", "\u{4eec}", "\u{ac00}", "\u{5011}"];
    let pool: Vec<char> = a
        .get("chars")
        .and_then(|p| std::fs::read_to_string(p).ok())
        .map(|s| s.split(',').filter_map(|t| t.trim().parse::<u32>().ok()).filter_map(char::from_u32).collect())
        .unwrap_or_default();
    for pre in prefixes {
        for ch in pool.iter() {
            let s: String = format!("{pre}{ch}z");
            match guard(|| codepages::to_lossy_bytes(&s).to_vec()) {
                Ok(b) => {
                    let _ = writeln!(w, "{}", json!({"ev": "CpEnc", "in": cps(&s), "out": b}));
                },
                Err(()) => {
                    let _ = writeln!(w, "{}", panic_ev("to_lossy_bytes", cps(&s)));
                },
            }
            n += 1;
        }
    }
    println!("{}", json!({"events": n, "pairs": rows.len(), "state_chars": pool.len()}));
    0
}
