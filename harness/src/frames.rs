//! Concrete frames for the abstract frame classes of LfsConn, and the
//! stand-alone-codec oracle that fixes what each concrete frame *is*.
use std::collections::BTreeMap;

use bytes::BytesMut;
use insim::{
    identifiers::RequestId,
    insim::{Tiny, Ver},
    net::{Codec, Mode},
    Packet,
};

pub fn mode_of(s: &str) -> Mode {
    if s == "U" {
        Mode::Uncompressed
    } else {
        Mode::Compressed
    }
}
pub fn size_byte(mode: &str, len: usize) -> u8 {
    if mode == "U" {
        len as u8
    } else {
        (len / 4) as u8
    }
}

/// What the stand-alone codec says about one buffer.
#[derive(Debug, Clone, PartialEq, Eq)]
pub enum Verdict {
    Need,
    Pkt { dbg: String, consumed: usize },
    DecodeErr { consumed: usize },
    FrameErr,
    Panic,
}

pub fn quiet_panics() {
    std::panic::set_hook(Box::new(|_| {}));
}

pub fn standalone(mode: &str, buf: &[u8]) -> (Verdict, Option<Packet>) {
    let codec = Codec::new(mode_of(mode));
    let mut b = BytesMut::from(buf);
    let before = b.len();
    let r = std::panic::catch_unwind(std::panic::AssertUnwindSafe(|| codec.decode(&mut b)));
    match r {
        Err(_) => (Verdict::Panic, None),
        Ok(Ok(None)) => (Verdict::Need, None),
        Ok(Ok(Some(p))) => (Verdict::Pkt { dbg: format!("{:?}", p), consumed: before - b.len() }, Some(p)),
        Ok(Err(insim::Error::IO { .. })) => (Verdict::FrameErr, None),
        Ok(Err(_)) => (Verdict::DecodeErr { consumed: before - b.len() }, None),
    }
}

pub fn try_encode(mode: &str, p: &Packet) -> Result<Vec<u8>, String> {
    let codec = Codec::new(mode_of(mode));
    match std::panic::catch_unwind(std::panic::AssertUnwindSafe(|| codec.encode(p))) {
        Err(_) => Err("panic".into()),
        Ok(Err(e)) => Err(format!("err:{e}")),
        Ok(Ok(b)) => Ok(b.to_vec()),
    }
}

/// Valid frames of every kind the encoder produces for default-constructed packets,
/// grouped by length.  Only frames the stand-alone decoder accepts in full are kept.
pub struct Pool {
    pub mode: String,
    pub by_len: BTreeMap<usize, Vec<Vec<u8>>>,
    /// the typed packets the frames were encoded from (same order): user writes are built from these, not by decoding
    pub pk_by_len: BTreeMap<usize, Vec<Packet>>,
}

impl Pool {
    /// the largest length for which the pool has an ordinary packet frame
    pub fn max_len(&self) -> usize {
        self.by_len.keys().copied().max().unwrap_or(8)
    }

    pub fn new(mode: &str) -> Self {
        let mut by_len: BTreeMap<usize, Vec<Vec<u8>>> = BTreeMap::new();
        let mut pk_by_len: BTreeMap<usize, Vec<Packet>> = BTreeMap::new();
        // one default packet of every kind, plus multi-car packets of 256, 508 and 1012 bytes (compressed mode only)
        let mut all = crate::abs::default_packets();
        for cars in [9usize, 18, 36] {
            let mut m = insim::insim::Mci::default();
            m.info = (0..cars).map(|_| insim::insim::CompCar::default()).collect();
            all.push(Packet::Mci(m));
        }
        // ... and a frame of exactly the compressed maximum (1020 bytes: IS_PLH with 254 entries)
        {
            let mut h = insim::insim::Plh::default();
            h.hcaps = (0..254).map(|_| Default::default()).collect();
            all.push(Packet::Plh(h));
        }
        for p in all {
            if matches!(p, Packet::Ver(_)) {
                continue; // version packets belong to classes ver9/verX
            }
            if let Ok(mut f) = try_encode(mode, &p) {
                if f.len() < 4 {
                    continue;
                }
                f[2] = 1; // request id 1: never a keep-alive
                // (not filtered by what the decoder under test makes of them: the encoder built them from typed packets)
                pk_by_len.entry(f.len()).or_default().push(p.clone());
                by_len.entry(f.len()).or_default().push(f);
            }
        }
        Pool { mode: mode.to_string(), by_len, pk_by_len }
    }

    /// a typed packet whose frame has this length, with its encoding (request id chosen like `frame` does)
    pub fn typed(&self, len: usize, c: usize) -> Option<(Packet, Vec<u8>)> {
        use insim::WithRequestId;
        let v = self.pk_by_len.get(&len)?;
        let p = v[c % v.len()].clone();
        let reqi = ((c / v.len()) % 255 + 1) as u8;
        let p: Packet = p.with_request_id(reqi).into();
        let enc = try_encode(&self.mode, &p).ok()?;
        Some((p, enc))
    }

    pub fn keepalive(&self) -> Vec<u8> {
        vec![size_byte(&self.mode, 4), 3, 0, 0]
    }

    /// A concrete frame for (len, cls); `c` varies the content.  None if the class has no frame of that length.
    pub fn frame(&self, len: usize, cls: &str, c: usize) -> Option<Vec<u8>> {
        let sb = size_byte(&self.mode, len);
        match cls {
            "ka" => (len == 4).then(|| self.keepalive()),
            "tiny" => {
                if len != 4 {
                    return None;
                }
                let mut k = c % (30 * 256 - 1) + 1; // skip (subt 0, reqi 0)
                if k >= 30 * 256 {
                    k = 1;
                }
                Some(vec![sb, 3, (k / 30) as u8, (k % 30) as u8])
            },
            "ver9" | "verX" => {
                if len != 20 {
                    return None;
                }
                let v = if cls == "ver9" {
                    9u8
                } else {
                    let x = (c % 255) as u8;
                    if x >= 9 {
                        x + 1
                    } else {
                        x
                    }
                };
                let p = Packet::Ver(Ver {
                    // a third of the version packets are unsolicited (reqi 0)
                    reqi: RequestId(if c % 3 == 0 { 0 } else { (c % 256) as u8 }),
                    insimver: v,
                    product: "S3".into(),
                    ..Default::default()
                });
                try_encode(&self.mode, &p).ok()
            },
            "pkt" => {
                let v = self.by_len.get(&len)?;
                let mut f = v[c % v.len()].clone();
                f[2] = ((c / v.len()) % 255 + 1) as u8;
                Some(f)
            },
            "bad" => {
                if len == 4 && c % 2 == 0 {
                    Some(vec![sb, 3, (c % 256) as u8, 99]) // TINY with an undefined sub-type
                } else {
                    let mut f = vec![0u8; len];
                    f[0] = sb;
                    f[1] = 200 + (c % 40) as u8; // undefined packet type
                    f[2] = (c % 256) as u8;
                    Some(f)
                }
            },
            "short" => {
                let n = if self.mode == "U" { (c % 4) as u8 } else { 0 };
                Some(vec![n, 3, 0, 0])
            },
            _ => None,
        }
    }
}

pub fn is_keepalive_frame(f: &[u8]) -> bool {
    f.len() == 4 && f[1] == 3 && f[2] == 0 && f[3] == 0
}

#[allow(dead_code)]
pub fn tiny(reqi: u8) -> Packet {
    Packet::Tiny(Tiny { reqi: RequestId(reqi), ..Default::default() })
}
