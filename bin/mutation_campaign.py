#!/usr/bin/env python3
"""Self-authored change catalogue (DESIGN.md appendix D): each entry is a small textual change to /repo that
compiles and keeps the 58 baseline tests green, and names the check expected to report it.

  bin/mutation_campaign.py [--only name,...] [--skip-tests]

For each entry: /repo must be clean; apply; (unless --skip-tests) run the baseline suite; run `bin/check <prop>`;
restore /repo; print one line.  Results are appended to work/campaign.jsonl.  These mutants are written by the author
of the checks (unlike seeded/S*), so they are a regression suite, not independent evidence.
"expect none" entries are refactorings that must NOT raise an alarm."""
import json, os, subprocess, sys, time, re

REPO = "/repo"
VERIF = os.path.dirname(os.path.dirname(os.path.abspath(__file__)))

M = [
    # name, file, old, new, property (None = must stay quiet; then `quiet` lists the checks to run)
    ("toc-swap-plid-olducid", "insim/src/insim/toc.rs", "    pub plid: PlayerId,\n\n    /// Original", None, None),  # placeholder, filled below
]
M = []


def add(name, file, old, new, prop, quiet=None):
    M.append({"name": name, "file": file, "old": old, "new": new, "prop": prop, "quiet": quiet})


# ---- wire layout (C02)
add("tiny-ping-30", "insim/src/insim/tiny.rs", "    Ping = 3,", "    Ping = 30,", "C02")
add("cnl-kicked-banned", "insim/src/insim/cnl.rs", "    Kicked = 3,\n", "    Kicked = 4,\n", "C02")  # second edit below
add("playerflags-mouse-bit9", "insim/src/insim/npl.rs", "const MOUSE = (1 << 10);", "const MOUSE = (1 << 9) | (1 << 10);", "C02")
add("isiflags-mci-nlp", "insim/src/insim/isi.rs", "const NLP = (1 << 4);\n", "const NLP = (1 << 5);\n", "C02")
add("packet-magic-44-45", "insim/src/packet.rs", "#[brw(magic = 44u8)]\n    Axo(Axo),", "#[brw(magic = 144u8)]\n    Axo(Axo),", "C02")
add("fin-pad-moved", "insim/src/insim/fin.rs", "    #[brw(pad_after = 1)]\n    pub btime: Duration,\n", "    pub btime: Duration,\n", "C02")
# ---- round trip (C01)
add("coninfo-thr-brk-write-swapped", "insim/src/insim/contact.rs", "let thrbrk: u8 = (self.thr << 4) | (self.brk & !0b11110000);", "let thrbrk: u8 = (self.brk << 4) | (self.thr & !0b11110000);", "C01")
add("fuel-255-is-percentage", "insim/src/insim/lap.rs", "        if data == 255 {\n            Ok(Self::No)\n        } else {\n            Ok(Self::Percentage(data))\n        }\n    }\n}\n\n#[binrw]", "        if data == 254 {\n            Ok(Self::No)\n        } else {\n            Ok(Self::Percentage(data))\n        }\n    }\n}\n\n#[binrw]", "C01")
add("vehicle-fxr-written-fxo", "insim_core/src/vehicle.rs", "Vehicle::Fxr => [b'F', b'X', b'R', 0].write_options", "Vehicle::Fxr => [b'F', b'X', b'O', 0].write_options", "C13")
add("plh-hmass-dropped", "insim/src/insim/plh.rs", "    pub h_mass: u8,\n", "    #[bw(map = |_x: &u8| 0u8)]\n    pub h_mass: u8,\n", "C01")
# ---- framing (C03 / C04)
add("mal-count-constant", "insim/src/insim/mal.rs", "#[bw(calc = allowed_mods.len() as u8)]", "#[bw(calc = 1u8.max((allowed_mods.len() > 0) as u8))]", "C03")
add("decode-length-le", "insim/src/net/mode.rs", "        if src.len() < n {\n            // We dont have a full packet yet", "        if src.len() <= n {\n            // We dont have a full packet yet", "C04")
add("decode-length-times2", "insim/src/net/mode.rs", "                Mode::Compressed => (*n as usize) * 4,", "                Mode::Compressed => (*n as usize) * 2 + (*n as usize) * 2 - ((*n as usize == 255) as usize) * 4,", "C04")
add("split-to-n-plus-1", "insim/src/net/codec.rs", "let mut data = src.split_to(n);", "let mut data = src.split_to((n + 1).min(src.len()));", "C04")
add("tiny-subt-unwrap", "insim/src/insim/btn.rs", "    pub subt: BfnType,\n", "    #[br(map = |x: u8| match x { 0 => BfnType::DelBtn, 1 => BfnType::Clear, 2 => BfnType::UserClear, 3 => BfnType::BtnRequest, _ => panic!(\"unknown bfn\") })]\n    pub subt: BfnType,\n", "C04")
# ---- connection
add("eof-treated-as-continue", "insim/src/net/blocking_impl/framed.rs", "                    return Err(Error::Disconnected);\n                },\n                Ok(_) => {\n                    continue;", "                    if self.buffer.is_empty() { return Err(Error::Disconnected); }\n                    continue;\n                },\n                Ok(_) => {\n                    continue;", "C05")
add("error-clears-buffer", "insim/src/net/blocking_impl/framed.rs", "                    tracing::info!(\"did get err={:?}\", e);\n", "                    tracing::info!(\"did get err={:?}\", e);\n                    self.buffer.clear();\n", "C05")
add("buffer-capacity-64", "insim/src/lib.rs", "pub(crate) const DEFAULT_BUFFER_CAPACITY: usize = MAX_SIZE_PACKET * 6;", "pub(crate) const DEFAULT_BUFFER_CAPACITY: usize = 64;", None, quiet=["C05", "C08"])
add("blocking-write-single", "insim/src/net/blocking_impl/framed.rs", "            self.inner.write_all(&buf)?;", "            let _ = self.inner.write(&buf)?;", "C06")
add("tokio-write-buf", "insim/src/net/tokio_impl/framed.rs", "        if !buf.is_empty() {\n            self.inner.write_all_buf(&mut buf).await?;", "        if !buf.is_empty() {\n            let _ = self.inner.write_buf(&mut buf).await?;", "C06")
add("pong-any-reqi", "insim/src/packet.rs", "                subt: TinyType::None,\n                reqi: RequestId(0),\n            }) => Some(Self::Tiny(Tiny {", "                subt: TinyType::None,\n                reqi: _,\n            }) => Some(Self::Tiny(Tiny {", "C07")
add("pong-ping-too", "insim/src/packet.rs", "            _ => None,\n        }\n    }\n\n    /// Does this packet contain the version", "            Packet::Tiny(Tiny { subt: TinyType::Ping, .. }) => Some(Self::Tiny(Tiny { reqi: RequestId(0), subt: TinyType::None })),\n            _ => None,\n        }\n    }\n\n    /// Does this packet contain the version", "C07")
add("no-pong-blocking", "insim/src/net/blocking_impl/framed.rs", "                        self.write(pong)?;", "                        let _ = pong;", "C07")
add("udp-blocking-scratch-512", "insim/src/net/blocking_impl/udp.rs", "let mut rx_bytes = [0u8; crate::MAX_SIZE_PACKET];", "let mut rx_bytes = [0u8; 512];", "C08")
add("udp-tokio-direct", "insim/src/net/tokio_impl/udp.rs", "        if this.buffer.is_empty() {", "        if this.buffer.is_empty() && buf.remaining() >= 1020 { return this.inner.poll_recv(cx, buf); }\n        if this.buffer.is_empty() {", None, quiet=["C08"])
add("version-lt", "insim/src/packet.rs", "if *insimver != crate::VERSION {", "if *insimver < crate::VERSION {", "C09")
add("gate-when-off", "insim/src/net/tokio_impl/framed.rs", "                    if self.verify_version {", "                    if self.verify_version || true {", "C09")
add("ws-text-ends-stream", "insim/src/net/tokio_impl/websocket.rs", "                    tracing::debug!(\n                        \"Got an unhandled message type from LFSWorld Relay? {:?}\",\n                        data\n                    );", "                    tracing::debug!(\n                        \"Got an unhandled message type from LFSWorld Relay? {:?}\",\n                        data\n                    );\n                    if data.is_text() { return Poll::Ready(Ok(())); }", "C20")
add("cancel-unsafe-pong", "insim/src/net/tokio_impl/framed.rs", "                        self.pending_pong = Some((buf, packet));\n                        continue;", "                        let mut buf = buf;\n                        self.inner.write_all_buf(&mut buf).await?;\n                        return Ok(packet);", "C19")
# ---- text
add("eight-not-codepage", "insim_core/src/string/codepages.rs", "'L' | 'G' | 'C' | 'E' | 'T' | 'B' | 'J' | 'H' | 'S' | 'K' | '8'", "'L' | 'G' | 'C' | 'E' | 'T' | 'B' | 'J' | 'H' | 'S' | 'K'", "C10")
add("swap-g-c-tables", "insim_core/src/string/codepages.rs", "'G' => Some(encoding_rs::WINDOWS_1253),", "'G' => Some(encoding_rs::WINDOWS_1251),", "C10")
add("strip-nul-rposition", "insim_core/src/string/mod.rs", "input.iter().position(|x| *x == 0)", "input.iter().rposition(|x| *x != 0).map(|p| p + 1)", "C11")
add("names-truncate-size-1", "insim_core/src/string/mod.rs", "        res.truncate(SIZE);\n\n        let remaining", "        res.truncate(SIZE - 1);\n\n        let remaining", "C11")
add("escape-l-r-swapped", "insim_core/src/string/escaping.rs", "            '<' => Some('l'),\n            '>' => Some('r'),", "            '<' => Some('r'),\n            '>' => Some('l'),", "C12")
add("strip-drop-caret-case", "insim_core/src/string/colours.rs", "            if k.is_lfs_control_char();\n            then {", "            if k.is_lfs_control_char() && false;\n            then {", "C12")
# ---- values
add("vehicle-alnum-upper", "insim_core/src/vehicle.rs", "bytes[0..=2].iter().all(|c| c.is_ascii_alphanumeric())", "bytes[0..=2].iter().all(|c| c.is_ascii_uppercase() || c.is_ascii_digit())", "C13")
add("track-fe2r-wire", "insim_core/src/track.rs", "Self::Fe2r => [b'F', b'E', b'2', b'R', 0, 0].write_options", "Self::Fe2r => [b'F', b'E', b'2', b'X', 0, 0].write_options", "C14")
add("track-reverse-row", "insim_core/src/track.rs", "                | Self::Bl2r\n", "", "C14")
add("racelaps-1-100", "insim/src/insim/racelaps.rs", "            1..=99 => RaceLaps::Laps(value),\n            100..=190", "            1..=100 => RaceLaps::Laps(value),\n            101..=190", "C15")
add("duration-as-cast", "insim_core/src/duration.rs", "    match T::try_from(input.as_millis() / SCALE) {", "    match T::try_from((input.as_millis() / SCALE) & 0xffff_ffff) {", "C15")
add("gv-no-uppercase", "insim_core/src/game_version.rs", "data.minor = patch.to_ascii_uppercase();", "data.minor = patch;", "C16")
add("gv-cmp-patch-default-1", "insim_core/src/game_version.rs", "        let patch = self\n            .patch\n            .unwrap_or(0)\n            .partial_cmp(&other.patch.unwrap_or(0));", "        let patch = self\n            .patch\n            .unwrap_or(1)\n            .partial_cmp(&other.patch.unwrap_or(1));", "C16")
# ---- files
add("smx-triangle-pad-removed", "insim_smx/src/lib.rs", "    #[brw(pad_after = 2)]\n    pub c: u16,", "    #[br(pad_after = 2)]\n    pub c: u16,", "C17")
add("pth-count-abs", "insim_pth/src/lib.rs", "    #[br(count = num_nodes)]\n    pub nodes: Vec<Node>,", "    #[br(count = num_nodes.unsigned_abs().min(64))]\n    pub nodes: Vec<Node>,", "C17")
# ---- builder
add("flag-con-sets-obh", "insim/src/builder.rs", "self.isi_flags.set(IsiFlags::CON, enabled);", "self.isi_flags.set(IsiFlags::OBH, enabled);", "C18")
add("prefix-ignored", "insim/src/builder.rs", "            prefix: self.isi_prefix.unwrap_or(0 as char),", "            prefix: 0 as char,", "C18")
add("interval-default-1ms", "insim/src/builder.rs", "self.isi_interval.unwrap_or(Duration::ZERO)", "self.isi_interval.unwrap_or(Duration::from_millis(1))", "C18")
# ---- refactorings that must not alarm
add("encoder-other-order", "insim_core/src/string/codepages.rs", "['L', 'G', 'C', 'E', 'T', 'B', 'J', 'H', 'S', 'K']", "['L', 'B', 'T', 'E', 'C', 'G', 'K', 'S', 'H', 'J']", None, quiet=["C10", "C12", "C11"])


def sh(cmd, **kw):
    return subprocess.run(cmd, stdout=subprocess.PIPE, stderr=subprocess.STDOUT, text=True, **kw)


def clean():
    return sh(["git", "-C", REPO, "diff", "--quiet"]).returncode == 0


def main():
    only = None
    skip_tests = "--skip-tests" in sys.argv
    for i, a in enumerate(sys.argv):
        if a == "--only":
            only = set(sys.argv[i + 1].split(","))
    os.makedirs(os.path.join(VERIF, "work"), exist_ok=True)
    out = open(os.path.join(VERIF, "work", "campaign.jsonl"), "a")
    for m in M:
        if only and m["name"] not in only:
            continue
        if not clean():
            print("/repo is dirty - stopping")
            return 2
        path = os.path.join(REPO, m["file"])
        src = open(path).read()
        if m["old"] not in src:
            print(f"{m['name']}: pattern not found in {m['file']} - skipped")
            continue
        open(path, "w").write(src.replace(m["old"], m["new"], 1))
        rec = {"name": m["name"], "prop": m["prop"], "file": m["file"]}
        try:
            if not skip_tests:
                t = sh(["cargo", "test", "--workspace", "--no-fail-fast", "--offline"], cwd=REPO)
                passed = sum(int(x) for x in re.findall(r"test result: \w+\. (\d+) passed", t.stdout))
                failed = sum(int(x) for x in re.findall(r"(\d+) failed;", t.stdout))
                rec["baseline"] = f"{passed} passed {failed} failed"
                if passed != 58 or failed or "error: could not compile" in t.stdout or "error[" in t.stdout:
                    rec["result"] = "invalid mutant (does not compile or fails the baseline)"
                    print(f"{m['name']}: {rec['result']} ({rec['baseline']})")
                    continue
            props = [m["prop"]] if m["prop"] else m["quiet"]
            rcs = {}
            for p in props:
                t0 = time.time()
                r = sh([os.path.join(VERIF, "bin", "check"), p, "--tier", "quick"], cwd=VERIF)
                keys = re.findall(r"^  key: (.*)$", r.stdout, flags=re.M)
                rcs[p] = {"rc": r.returncode, "keys": keys[:3], "wall": round(time.time() - t0)}
                subprocess.run(["rm", "-rf", os.path.join(VERIF, "replay", p)])
            rec["checks"] = rcs
            if m["prop"]:
                rec["result"] = "caught" if rcs[m["prop"]]["rc"] == 1 else ("TOOL ERROR" if rcs[m["prop"]]["rc"] == 2 else "MISSED")
            else:
                rec["result"] = "quiet (as required)" if all(v["rc"] == 0 for v in rcs.values()) else "FALSE ALARM"
            print(f"{m['name']}: {rec['result']} {json.dumps(rcs)[:300]}")
        finally:
            subprocess.run(["git", "-C", REPO, "checkout", "--", "."])
            out.write(json.dumps(rec) + "\n")
            out.flush()
    return 0


if __name__ == "__main__":
    sys.exit(main())
