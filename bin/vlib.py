"""Shared machinery of bin/check: build, TLC driver, evidence, findings, exit-code discipline.

Exit codes: 0 property held on everything explored (KNOWN-FINDING lines allowed),
            1 only together with a line `VIOLATION property=<id> replay=<path>`,
            2 tool errors (build failure, TLC error, time-out, vacuity alarm).
"""
import json, os, re, subprocess, sys, time, hashlib, shutil

VERIF = os.path.dirname(os.path.dirname(os.path.abspath(__file__)))
SPEC = os.path.join(VERIF, "spec")
WORK = os.path.join(VERIF, "work")
HARNESS = os.path.join(VERIF, "harness")
BIN = os.path.join(HARNESS, "target", "release", "lfsverif")
JAVA_TRACE_OPTS = "-Xss1g -Dtlc2.tool.queue.IStateQueue=StateDeque"


class ToolError(Exception):
    pass


def log(*a):
    print(*a, file=sys.stderr, flush=True)


def sh(cmd, timeout=None, env=None, cwd=None, stdout_path=None):
    e = dict(os.environ)
    if env:
        e.update(env)
    if stdout_path:
        with open(stdout_path, "w") as f:
            p = subprocess.run(cmd, stdout=f, stderr=subprocess.STDOUT, env=e, cwd=cwd, timeout=timeout)
        return p.returncode, None
    p = subprocess.run(cmd, stdout=subprocess.PIPE, stderr=subprocess.STDOUT, env=e, cwd=cwd, timeout=timeout, text=True)
    return p.returncode, p.stdout


_built = False


def build_harness():
    """Rebuild the harness against /repo's current working tree (path dependency, incremental)."""
    global _built
    if _built:
        return
    os.makedirs(WORK, exist_ok=True)
    try:
        shutil.copyfile("/repo/Cargo.lock", os.path.join(HARNESS, "Cargo.lock"))
    except OSError as ex:
        raise ToolError(f"cannot copy /repo/Cargo.lock: {ex}")
    t = time.time()
    rc, out = sh(["cargo", "build", "--release", "--offline"], cwd=HARNESS, timeout=1800,
                 env={"CARGO_NET_OFFLINE": "true"})
    if rc != 0:
        log(out[-4000:])
        raise ToolError("harness build failed (does /repo still compile? was a public field renamed?)")
    log(f"[build] harness built in {time.time()-t:.1f}s")
    _built = True


def harness(args, timeout=3600, stdout_path=None, allow_crash=False):
    build_harness()
    rc, out = sh([BIN] + args, timeout=timeout, stdout_path=stdout_path)
    if rc != 0:
        if allow_crash and rc < 0:
            return rc          # killed by a signal (e.g. SIGABRT after an impossible allocation): data, not a tool error
        raise ToolError(f"harness {args[0]} exited {rc}: {(out or '')[-2000:]}")
    return out


class TlcResult:
    def __init__(self):
        self.generated = 0
        self.distinct = 0
        self.depth = 0
        self.violated = None      # invariant / property name
        self.error = None         # other TLC error text
        self.ok = False
        self.out_path = None
        self.wall = 0.0
        self.actions = {}         # action name -> (distinct, generated) from -coverage
        self.rejected = None      # (index, event json) from trace validation


def write_cfg(name, spec, constants, invariants=(), properties=(), view=None, constraint=None,
              action_constraint=None, postcondition=None):
    os.makedirs(os.path.join(WORK, "cfg"), exist_ok=True)
    path = os.path.join(WORK, "cfg", name + ".cfg")
    lines = [f"SPECIFICATION {spec}", "CONSTANTS"]
    for k, v in constants.items():
        lines.append(f"  {k} {v}")
    if view:
        lines.append(f"VIEW {view}")
    if constraint:
        lines.append(f"CONSTRAINT {constraint}")
    if action_constraint:
        lines.append(f"ACTION_CONSTRAINT {action_constraint}")
    if invariants:
        lines.append("INVARIANTS " + " ".join(invariants))
    if properties:
        lines.append("PROPERTIES " + " ".join(properties))
    if postcondition:
        lines.append(f"POSTCONDITION {postcondition}")
    lines.append("CHECK_DEADLOCK FALSE")
    with open(path, "w") as f:
        f.write("\n".join(lines) + "\n")
    return path


def tlc(module, cfg_path, name, workers=8, env=None, timeout=1800, coverage=True, simulate=None,
        trace_mode=False, seed=None, xmx=None, spec_dir=None, depth=None):
    """Run TLC; never raises on an invariant violation (that is data), raises ToolError on tool errors."""
    os.makedirs(WORK, exist_ok=True)
    meta = os.path.join(WORK, "md_" + name)
    out_path = os.path.join(WORK, name + ".tlc.out")
    cmd = ["timeout", str(timeout), "tlc", "-workers", str(workers), "-metadir", meta, "-cleanup",
           "-noGenerateSpecTE", "-config", cfg_path]
    if coverage and not trace_mode and not simulate:
        cmd += ["-coverage", "1"]
    if simulate:
        cmd += ["-simulate", simulate]
        if depth:
            cmd += ["-depth", str(depth)]
    if seed is not None:
        cmd += ["-seed", str(seed)]
    cmd.append(os.path.join(spec_dir or SPEC, module + ".tla"))
    e = dict(env or {})
    if trace_mode:
        e["JAVA_TOOL_OPTIONS"] = JAVA_TRACE_OPTS
    t = time.time()
    rc, _ = sh(cmd, env=e, cwd=WORK, stdout_path=out_path, timeout=timeout + 60)
    r = TlcResult()
    r.wall = time.time() - t
    r.out_path = out_path
    shutil.rmtree(meta, ignore_errors=True)
    act_re = re.compile(r"^<(\w+) line \d+, col \d+ to line \d+, col \d+ of module (\w+)(?: \([\d ]+\))?>: (\d+):(\d+)")
    with open(out_path, errors="replace") as f:
        for line in f:
            m = re.search(r"(\d+) states generated, (\d+) distinct states found, (\d+) states left", line)
            if m and not line.startswith("Progress"):
                r.generated, r.distinct = int(m.group(1)), int(m.group(2))
            m = re.search(r"depth of the complete state graph search is (\d+)", line)
            if m:
                r.depth = int(m.group(1))
            m = re.search(r"Error: Invariant (\w+) is violated", line)
            if m:
                r.violated = m.group(1)
            m = re.search(r"Error: Action property (\w+) is violated", line) or re.search(r"Error: Temporal properties were violated", line)
            if m and not r.violated:
                r.violated = m.group(1) if m.groups() else "temporal"
            m = re.search(r"Error: Postcondition (\w+)", line)
            if m:
                r.violated = m.group(1)
            if line.startswith('<<"REJECTED"'):
                mm = re.match(r'<<"REJECTED", (\d+), (".*")>>', line.strip())
                if mm:
                    r.rejected = (int(mm.group(1)), json.loads(json.loads(mm.group(2))))
            if line.startswith("Error:") and r.violated is None and r.error is None and "Postcondition" not in line:
                r.error = line.strip()
            m = act_re.match(line)
            if m:
                r.actions[m.group(1)] = (int(m.group(3)), int(m.group(4)))
            if "Model checking completed. No error has been found" in line or "Finished in" in line:
                pass
    if rc == 124:
        raise ToolError(f"TLC timed out after {timeout}s on {name} (see {out_path})")
    if r.error and not r.violated:
        # e.g. evaluation errors, parse errors
        tail = open(out_path, errors="replace").read()[-3000:]
        raise ToolError(f"TLC error on {name}: {r.error}\n{tail}")
    if rc not in (0, 12, 13, 10, 11) and not r.violated:
        tail = open(out_path, errors="replace").read()[-3000:]
        raise ToolError(f"TLC exited {rc} on {name}\n{tail}")
    r.ok = r.violated is None
    return r


def extract_emitted(out_path, ndjson_path, tag="REPLAY", dedupe_prefix=False):
    """Lines `<<"TAG", "<json string literal>">>` printed by PrintT -> clean NDJSON. Returns the count."""
    n = 0
    seen = set()
    pre = f'<<"{tag}", '
    with open(out_path, errors="replace") as f, open(ndjson_path, "w") as o:
        for line in f:
            if line.startswith(pre):
                lit = line.strip()[len(pre):-2]
                try:
                    txt = json.loads(lit)
                except Exception:
                    continue
                h = hashlib.blake2b(txt.encode(), digest_size=12).digest()
                if h in seen:
                    continue
                seen.add(h)
                o.write(txt + "\n")
                n += 1
    return n


# ----------------------------------------------------------------------------- findings
def load_findings():
    p = os.path.join(VERIF, "known_findings.json")
    if not os.path.exists(p):
        return {"open": [], "fixed": []}
    d = json.load(open(p))
    return {"open": [f for f in d.get("findings", []) if f.get("status") == "open"],
            "fixed": [f for f in d.get("findings", []) if f.get("status") == "fixed"]}


def norm_key(text):
    """A finding key: the mismatch text with concrete numbers and byte lists abstracted."""
    text = text.split(" | detail:")[0]
    t = re.sub(r"\[[0-9, ]*\]", "[..]", text)
    t = re.sub(r"\d+", "N", t)
    return t[:220]


class Check:
    """One run of one property's check: collects evidence, violations, and decides the exit code."""

    def __init__(self, pid, tier, seed, level="model_checking"):
        self.pid, self.tier, self.seed, self.level = pid, tier, seed, level
        self.t0 = time.time()
        self.states = 0
        self.transitions = 0
        self.traces = 0
        self.evaluations = 0
        self.distinct = set()
        self.samples = []
        self.runs = []
        self.violations = []     # (key, what, replay_obj)
        self.assumptions = []
        self.rule = ""
        self.exhaustive = None
        self.extra = {}
        self.findings = load_findings()

    def add_tlc(self, name, r, expect_violation=None, needs_actions=()):
        self.states += r.distinct
        self.transitions += r.generated
        entry = {"run": name, "distinct_states": r.distinct, "states_generated": r.generated, "depth": r.depth,
                 "wall_s": round(r.wall, 1), "violated": r.violated}
        if r.actions:
            entry["action_coverage"] = {k: v[1] for k, v in r.actions.items()}
        self.runs.append(entry)
        if expect_violation:
            if r.violated is None:
                raise ToolError(f"vacuity alarm: the deliberately defective model {name} passed "
                                f"(expected a violation of {expect_violation})")
            return
        for a in needs_actions:
            if r.actions and r.actions.get(a, (0, 0))[1] == 0:
                raise ToolError(f"vacuity alarm: action {a} was never taken in {name}")

    def sample(self, s):
        if len(self.samples) < 6:
            self.samples.append(s)

    def case(self, obj):
        """Count one executed case; distinctness by hashing its content."""
        self.evaluations += 1
        self.distinct.add(hashlib.blake2b(json.dumps(obj, sort_keys=True).encode(), digest_size=10).digest())

    def violation(self, key, what, replay_obj):
        self.violations.append((key, what, replay_obj))

    def finish(self):
        os.makedirs(os.path.join(VERIF, "evidence"), exist_ok=True)
        rdir = os.path.join(VERIF, "replay", self.pid)
        known = {f["key"]: f for f in self.findings["open"] if f["property"] == self.pid}
        new = []
        shown = set()
        for key, what, obj in self.violations:
            if key in known:
                if key not in shown:
                    print(f"KNOWN-FINDING: property={self.pid} {known[key]['what']}")
                    shown.add(key)
                continue
            new.append((key, what, obj))
        printed = set()
        n = 0
        for key, what, obj in new:
            if key in printed:
                continue
            printed.add(key)
            n += 1
            os.makedirs(rdir, exist_ok=True)
            path = os.path.join(rdir, f"{self.tier}-{self.seed}-{n}.json")
            json.dump({"property": self.pid, "key": key, "what": what, "case": obj,
                       "rerun": f"bin/check {self.pid} --replay {path}"}, open(path, "w"), indent=1)
            print(f"VIOLATION property={self.pid} replay={path}")
            log(f"  key: {key}\n  what: {what}")
            if n >= 20:
                break
        cov = {
            "states": self.states, "transitions": self.transitions,
            "traces_validated_against_impl": self.traces,
            "evaluations": self.evaluations, "distinct_nontrivial": len(self.distinct),
            "rule": self.rule, "samples": self.samples or [{"note": "no sample recorded"}],
            "tlc_runs": self.runs,
        }
        if self.exhaustive is not None:
            cov["exhaustive"] = self.exhaustive
        cov.update(self.extra)
        ev = {"property_id": self.pid, "tier": self.tier, "seed": self.seed, "level": self.level,
              "coverage": cov, "assumptions": self.assumptions, "wall_s": round(time.time() - self.t0, 1),
              "violations": len(printed), "known_findings_seen": sorted(shown)}
        json.dump(ev, open(os.path.join(VERIF, "evidence", self.pid + ".json"), "w"), indent=1)
        log(f"[{self.pid}] states={self.states} transitions={self.transitions} impl-cases={self.traces} "
            f"violations={len(printed)} known={len(shown)} wall={ev['wall_s']}s")
        return 1 if printed else 0
