"""Checks decided with spec/LfsConn.tla: C05 C06 C07 C09 C19 (scripted transports) and C08 C20 (real sockets)."""
import json, os
from vlib import *

INV_ALL = ["TypeOK", "InOrder", "NoLoss", "FramingInv", "BufferInv", "PongsOk", "NoPartialPong", "WritesOk", "AllLeft",
           "UnitsOk", "OutContig", "DiscOk"]


def consts(**kw):
    c = {
        "MaxFrames": "= 3", "Lens": "<- L48", "Classes": "<- ClsStream", "Cap": "= 12", "MaxDgram": "= 8",
        "Transports": "<- TStream", "Flavors": "<- BothFlavors", "Verifies": "<- GateBoth",
        "WritePolicy": '= "write_all"', "UdpPolicy": '= "buffered"', "PongPolicy": '= "cancel_safe"',
        "MaxErr": "= 0", "MaxPending": "= 0", "MaxCancel": "= 0", "MaxTimeout": "= 0",
        "MaxWrites": "= 0", "WLens": "<- None", "FrameOK": "<- FrameAny", "KeepHist": "= TRUE", "MaxQueued": "= 2", "Truncation": "= FALSE", "WriteFailures": "= FALSE", "FlushPolicy": '= "flush"', "MaxBlock": "= 0",
        "EmSmallFills": "= 3", "EmSizes": "<- S13458", "EmPong": "<- None", "EmWacc": "<- None", "EmBp": "= FALSE",
    }
    c.update(kw)
    return c


def mc(chk, name, c, workers=8, timeout=1800, expect_violation=None, needs=()):
    """Exhaustive run of LfsConn (history hidden by VIEW) with all invariants."""
    cfg = write_cfg(name, "Spec", c, invariants=INV_ALL, properties=["ErrNoLoss"], view="View")
    r = tlc("MC_Conn", cfg, name, workers=workers, timeout=timeout)
    if not expect_violation and r.violated:
        # the specification of record itself breaks the property: a defect of the model, not of the code
        raise ToolError(f"model {name} violates {r.violated}: the specification of record is wrong (see {r.out_path})")
    chk.add_tlc(name, r, expect_violation=expect_violation, needs_actions=needs)
    log(f"[tlc] {name}: {r.distinct} distinct states, depth {r.depth}, {r.wall:.0f}s"
        + (f", violated {r.violated} (expected)" if expect_violation else ""))
    return r


def live(chk, name, c):
    """liveness under weak fairness of the read loop (unconstrained FairSpec): every frame that arrived is eventually delivered"""
    cfg = write_cfg(name, "FairSpec", c, properties=["AllDelivered"])
    r = tlc("MC_Conn", cfg, name, workers=4, timeout=900, coverage=False)
    if r.violated:
        raise ToolError(f"liveness AllDelivered fails on the specification of record (see {r.out_path})")
    chk.add_tlc(name, r)
    log(f"[tlc] {name}: AllDelivered holds under fairness ({r.distinct} states, {r.wall:.0f}s)")


def emit(chk, name, c, timeout=400, simulate=None, seed=None):
    """Generate behaviours (history kept in the state, one line per finished behaviour)."""
    cfg = write_cfg(name, "EmitSpec", c, invariants=["InOrder", "NoLoss", "FramingInv", "PongsOk", "WritesOk", "EmitInv"],
                    action_constraint="StopWhenFinished")
    r = tlc("MC_Conn", cfg, name, workers=1, env={"EMIT": "1"}, timeout=timeout, coverage=False, simulate=simulate, seed=seed)
    if r.violated:
        raise ToolError(f"model {name} violates {r.violated} while generating behaviours (see {r.out_path})")
    nd = os.path.join(WORK, name + ".ndjson")
    n = extract_emitted(r.out_path, nd)
    chk.add_tlc(name, r)
    log(f"[tlc] {name}: {n} behaviours emitted ({r.distinct} states, {r.wall:.0f}s)")
    try:
        os.remove(r.out_path)
    except OSError:
        pass
    return nd, n


def emit_sim(chk, name, c, num, seed, min_frames=10, depth=900, timeout=1500):
    """Long behaviours by random walks of TLC (-simulate): the peer produces at least min_frames frames and closes, then the
    reader runs with arbitrary segmentation / errors / pending / cancellation / user writes until it has observed the closure.
    The model's invariants are evaluated along every walk; every finished walk is printed for replay."""
    c = dict(c)
    c.update(EmSmallFills="= 9999")
    cfg = write_cfg(name, "EmitSpec", c, invariants=["InOrder", "NoLoss", "FramingInv", "BufferInv", "PongsOk", "WritesOk", "OutContig", "EmitInv"],
                    action_constraint="StopWhenFinished")
    r = tlc("MC_Conn", cfg, name, workers=1, env={"EMIT": "1", "EMIT_ANY": "1", "SIM_MIN": str(min_frames)}, timeout=timeout, coverage=False,
            simulate=f"num={num}", seed=seed, depth=depth)
    if r.violated:
        raise ToolError(f"model {name} violates {r.violated} along a random walk (see {r.out_path})")
    nd = os.path.join(WORK, name + ".ndjson")
    n = extract_emitted(r.out_path, nd)
    # simulation prints "The number of states generated: n"
    with open(r.out_path, errors="replace") as f:
        for line in f:
            if line.startswith("The number of states generated:"):
                r.generated = r.distinct = int(line.split(":")[1].strip())
    chk.add_tlc(name, r)
    log(f"[tlc] {name}: {n} random walks of >= {min_frames} frames emitted ({r.generated} states, {r.wall:.0f}s)")
    if n < num // 2:
        raise ToolError(f"{name}: only {n} of {num} random walks finished (depth too small?)")
    try:
        os.remove(r.out_path)
    except OSError:
        pass
    return nd, n


def replay(chk, nd, seed, wsq=False):
    """spec -> impl: every behaviour is executed on the real Framed (both size modes).  wsq: websocket behaviours on the
    scripted transport that queues writes like the websocket adaptor (poll_write accepts, poll_flush hands on or is Pending)."""
    outp = nd + ".replay.out"
    harness(["conn-replay", "--in", nd, "--seed", str(seed)] + (["--wsq", "1"] if wsq else []), stdout_path=outp)
    summary = None
    with open(outp) as f:
        for line in f:
            v = json.loads(line)
            if "summary" in v:
                summary = v["summary"]
            elif "mismatch" in v:
                key = f"replay:{v['flavor']}:" + norm_key(v["mismatch"])
                chk.violation(key, v["mismatch"], {"kind": "conn-replay", "mode": v["mode"], "behaviour": v["behaviour"]})
    if summary is None:
        raise ToolError("conn-replay printed no summary")
    chk.traces += summary["executed"] - summary["skipped"]
    chk.extra.setdefault("replay", []).append(summary)
    if summary["executed"] and summary["skipped"] > summary["executed"] // 2:
        raise ToolError(f"more than half of the behaviours were skipped: {summary['skip_reasons']}")
    # sample + distinct counting
    with open(nd) as f:
        for i, line in enumerate(f):
            b = json.loads(line)
            chk.case(b)
            if i < 2:
                chk.sample({"behaviour": b})
    log(f"[replay] {summary}")
    return summary


def trace_validate(chk, name, trace_path, what, inv_every=None):
    """impl -> spec: TLC explains the recorded trace with Trace_Conn or rejects it."""
    env = {"TRACE": trace_path}
    if inv_every:
        env["INV_EVERY"] = str(inv_every)
    elif chk.tier == "thorough":
        env["INV_EVERY"] = "8"      # large traces: invariants at every 8th event, at every session end and at the end
    r = tlc("Trace_Conn", os.path.join(SPEC, "Trace_Conn.cfg"), name, workers=1, env=env, timeout=3000, trace_mode=True)
    chk.add_tlc(name, r)
    nev = sum(1 for _ in open(trace_path))
    chk.evaluations += nev
    if r.violated == "Accepted":
        idx, ev = r.rejected if r.rejected else (0, {})
        ctx = []
        with open(trace_path) as f:
            lines = f.readlines()
        # the session this event belongs to
        start = idx - 1
        while start > 0 and '"Reset"' not in lines[start - 1 if start - 1 >= 0 else 0]:
            start -= 1
        reset = json.loads(lines[max(start - 1, 0)]) if lines else {}
        ctx = [json.loads(x) for x in lines[max(0, idx - 8):idx]]
        session_events = [json.loads(x) for x in lines[max(start - 1, 0):idx]]
        key = f"trace:{reset.get('flavor','?')}:{ev.get('ev','?')}:" + norm_key(json.dumps({k: v for k, v in ev.items() if k not in ('id',)}, sort_keys=True))
        chk.violation(key, f"{what}: event {idx} cannot be explained by the specification: {json.dumps(ev)}",
                      {"kind": "conn-trace", "event_index": idx, "event": ev, "context": ctx, "session": reset,
                       "events": session_events[-4000:] if len(session_events) <= 4000 else [session_events[0]] + session_events[-3999:]})
    elif r.violated:
        chk.violation(f"trace-invariant:{r.violated}", f"{what}: invariant {r.violated} violated along the recorded trace",
                      {"kind": "conn-trace", "trace_file": trace_path, "invariant": r.violated})
    else:
        chk.traces += 1
    log(f"[trace] {name}: {nev} events, {'accepted' if r.ok else 'REJECTED'} in {r.wall:.0f}s")
    return r


def gen_trace(name, seed, sessions, frames, flavor="both", writes=False, cancels=False, extra=()):
    p = os.path.join(WORK, name + ".ndjson")
    args = ["conn-trace", "--out", p, "--seed", str(seed), "--sessions", str(sessions), "--frames", str(frames),
            "--flavor", flavor, "--writes", "1" if writes else "0", "--cancels", "1" if cancels else "0"] + list(extra)
    out = harness(args)
    return p, json.loads(out.strip().splitlines()[-1])


def chksum_seed(chk):
    return chk.seed * 100 + 77


def sample_trace(chk, path, n=12):
    with open(path) as f:
        ev = [json.loads(next(f)) for _ in range(n)]
    chk.sample({"trace_excerpt": ev})


# =============================================================================
def check_C05(chk):
    """Stream reassembly independent of segmentation and session length."""
    thorough = chk.tier == "thorough"
    chk.rule = ("TLC explores LfsConn exhaustively (every interleaving of peer sends, transport segmentation, one "
                "transient error, end of stream) and checks InOrder/NoLoss/FramingInv/BufferInv/DiscOk/ErrNoLoss; every "
                "finished behaviour of the emit configuration is replayed on the real blocking and tokio Framed in both "
                "size modes; randomized long sessions are recorded and validated by Trace_Conn. A case is one behaviour "
                "or one recorded event; distinct = distinct behaviours by content hash.")
    mc(chk, "c05_trunc", consts(MaxFrames="= 3", MaxErr="= 0", Classes="<- ClsUdp", Verifies="<- GateOn", Truncation="= TRUE"), needs=("DoPeerTruncated", "FillEof"))
    # quick: 3 frames (3.1M states); thorough: 4 frames (29M states, about 10 min on 14 workers); the gate is C09's business
    mc(chk, "c05_stream", consts(MaxFrames="= 4" if thorough else "= 3", MaxErr="= 1", Verifies="<- GateOn", Lens="<- L48", Cap="= 12"),
       workers=14 if thorough else 8, timeout=3000, needs=("FillStream", "FillErr", "FillEof", "TryDecode"))
    mc(chk, "c05_short", consts(Classes="<- ClsShort", Verifies="<- GateOn"))
    live(chk, "c05_live", consts(MaxFrames="= 2", Classes="<- ClsUdp", Verifies="<- GateOn", KeepHist="= FALSE"))
    # non-vacuity: a connection that loses the tail of a datagram / drops the buffer must be caught by the same invariants
    mc(chk, "c05_mut_direct", consts(Transports="<- TUdp", Classes="<- ClsUdp", Flavors="<- OnlyTokio", Verifies="<- GateOn",
                                     MaxFrames="= 4", UdpPolicy='= "direct"'), expect_violation="NoLoss")
    # spec -> impl
    nd, n = emit(chk, "c05_emit", consts(MaxFrames="= 2", Classes="<- ClsSeg", Verifies="<- GateOn", MaxErr="= 1",
                                         FrameOK="<- FrameReal", EmSmallFills="= 4" if thorough else "= 3"))
    replay(chk, nd, chk.seed)
    nd, n = emit(chk, "c05_emit_trunc", consts(MaxFrames="= 2", Classes="<- ClsUdp", Verifies="<- GateOn", FrameOK="<- FrameReal", Truncation="= TRUE",
                                               EmSmallFills="= 2", EmSizes="<- S134"))
    replay(chk, nd, chk.seed + 3)
    nd, n = emit(chk, "c05_emit3", consts(MaxFrames="= 3", Classes="<- ClsSeg", Verifies="<- GateOn", MaxErr="= 0",
                                          FrameOK="<- FrameReal", EmSmallFills="= 2", EmSizes="<- S134",
                                          Flavors="<- BothFlavors"))
    replay(chk, nd, chk.seed + 1)
    nd, n = emit(chk, "c05_emit_short", consts(MaxFrames="= 2", Classes="<- ClsShort", Verifies="<- GateOn",
                                               FrameOK="<- FrameReal", EmSmallFills="= 1", EmSizes="<- S134"))
    replay(chk, nd, chk.seed + 2)
    # long behaviours (>= 10 frames of 4..20 bytes, truncation, 2 errors, pending, cancellation, 2 user writes) by random walks
    nd, n = emit_sim(chk, "c05_sim", consts(MaxFrames="= 14", Lens="<- L48_12_20", Classes="<- ClsStream", FrameOK="<- FrameReal", MaxErr="= 2",
                                            MaxPending="= 2", MaxCancel="= 2", MaxTimeout="= 1", MaxWrites="= 2", WLens="<- W48", Truncation="= TRUE",
                                            EmSizes="<- S13458", EmPong="<- S13", EmWacc="<- S13"),
                     num=1500 if thorough else 60, seed=chk.seed)
    replay(chk, nd, chk.seed + 5)
    # impl -> spec: long sessions (>> 6120 bytes of traffic), all transports accept whole writes here (C07 covers partial)
    rounds = 6 if thorough else 2
    for i in range(rounds):
        p, info = gen_trace(f"c05_trace{i}", chk.seed * 100 + i, sessions=8, frames=400 if thorough else 150, extra=["--wseg", "2"])
        if i == 0:
            sample_trace(chk, p)
        trace_validate(chk, f"c05_tv{i}", p, "stream session")
    # long pre-filled streams read in fixed-size pieces: for > 6120 bytes every read ends inside a frame, so the receive
    # buffer never drains and has to make room while it holds a partial frame
    p, info = gen_trace("c05_chunks", chksum_seed(chk), sessions=8 if thorough else 4, frames=600 if thorough else 300,
                        extra=["--wseg", "2", "--chunks", "1000,64,997,7,500,1021,3,250"])
    trace_validate(chk, "c05_tv_chunks", p, "long pre-filled stream")
    chk.assumptions += ["frames used in connection runs are classified by the stand-alone Codec (C01-C04 decide whether the codec is right)",
                        "scripted in-memory transports stand for TCP; exhaustive bounds: <=4 frames, lengths {4,8,12}, capacity 12-16 (scaled)"]


def check_C06(chk):
    """Writes reach the transport complete, contiguous and in order."""
    thorough = chk.tier == "thorough"
    chk.rule = ("TLC explores user writes against a transport that accepts any k in 1..offered bytes per call (and "
                "Pending for tokio) and checks WritesOk; every behaviour is replayed on both Framed flavours with a "
                "transport accepting exactly the scripted k and comparing every accepted byte with the encoder's frame; "
                "random sessions with random acceptance are validated by Trace_Conn.")
    mc(chk, "c06_write", consts(MaxFrames="= 1", Classes="<- ClsUdp", Verifies="<- GateOn", MaxPending="= 1",
                                MaxWrites="= 3" if thorough else "= 2", WLens="<- W48"), needs=("WriteCall", "WriteAccept"))
    mc(chk, "c06_mut_single", consts(MaxFrames="= 1", Classes="<- ClsUdp", Flavors="<- OnlyBlocking", Verifies="<- GateOn",
                                     MaxWrites="= 1", WLens="<- W4", WritePolicy='= "single_write"'), expect_violation="WritesOk")
    nd, n = emit(chk, "c06_emit", consts(MaxFrames="= 0", Classes="<- ClsSeg", Verifies="<- GateOn", MaxPending="= 1",
                                         MaxWrites="= 2", WLens="<- W8", EmWacc="<- S13", FrameOK="<- FrameReal"))
    replay(chk, nd, chk.seed)
    # the transport fails in the middle of a frame (time limit, not ready, reset): write() reports it and the frame is not started
    # again (LfsConn.WriteFail; a retry from byte 0 would put the accepted prefix on the wire twice)
    mc(chk, "c06_wfail", consts(MaxFrames="= 0", Classes="<- ClsSeg", Verifies="<- GateOn", MaxPending="= 1",
                                MaxWrites="= 2", WLens="<- W48", WriteFailures="= TRUE"), needs=("WriteFail", "WriteAccept"))
    nd, n = emit(chk, "c06_emit_wfail", consts(MaxFrames="= 0", Classes="<- ClsSeg", Verifies="<- GateOn", MaxPending="= 1",
                                               MaxWrites="= 2" if thorough else "= 1", WLens="<- W8", EmWacc="<- S13", FrameOK="<- FrameReal",
                                               WriteFailures="= TRUE"))
    for k in range(3):        # the three error kinds per flavour
        replay(chk, nd, chk.seed + 20 + k)
    # the connection's own frames count too: a user write issued after a cancelled read must not cut into a half-written
    # keep-alive reply (everything that leaves is a sequence of whole frames: OutContig)
    mc(chk, "c06_cancel_write", consts(MaxFrames="= 1", Classes="<- ClsKa", Flavors="<- OnlyTokio", Verifies="<- GateOn", MaxPending="= 1",
                                       MaxCancel="= 1", MaxWrites="= 1", WLens="<- W8"), needs=("Cancel", "WriteCall"))
    nd, n = emit(chk, "c06_emit_cw", consts(MaxFrames="= 1", Classes="<- ClsKa", Flavors="<- OnlyTokio", Verifies="<- GateOn", MaxPending="= 1",
                                            MaxCancel="= 1", MaxWrites="= 1", WLens="<- W8", FrameOK="<- FrameReal", EmSmallFills="= 0",
                                            EmPong="<- S13", EmWacc="<- S1"))
    replay(chk, nd, chk.seed + 1)
    # the websocket transport under write-side back pressure (see C20): every frame written arrives once, whole, in order
    p, info = gen_net_trace("c06_burst", "ws", chk.seed * 100 + 51, sessions=0, nbytes=100, writes=False, burst=600 if thorough else 400)
    chk.extra["burst"] = info
    trace_validate(chk, "c06_burst_tv", p, "websocket burst under back pressure", inv_every=25)
    # real UDP sockets: each write is one datagram; and when the kernel refuses a datagram (the peer's port was closed a moment ago)
    # the write that returns Ok has sent its frame, the write that is refused says so
    p, info = gen_net_trace("c06_udp", "udp", chk.seed * 100 + 61, sessions=4, nbytes=1500, writes=True)
    trace_validate(chk, "c06_udp_tv", p, "UDP session with writes and a refused datagram")
    for i in range(4 if thorough else 1):
        p, info = gen_trace(f"c06_trace{i}", chk.seed * 100 + i, sessions=8, frames=80, writes=True, extra=["--noka", "1"])
        if i == 0:
            sample_trace(chk, p)
        trace_validate(chk, f"c06_tv{i}", p, "session with user writes")
    chk.assumptions += ["a stream transport may accept any 1..offered bytes per call; datagram / message transports are covered by C08 / C20"]


def check_C07(chk):
    """Keep-alives answered exactly once, and only they."""
    thorough = chk.tier == "thorough"
    chk.rule = ("TLC explores keep-alive / other-TINY / other frames in every order and segmentation with a transport that "
                "accepts the reply in any pieces - or fails the write - checking PongsOk / NoPartialPong; behaviours are replayed on both Framed "
                "flavours (any write the model does not do is a mismatch); a deterministic sweep feeds all 30x256 TINY "
                "(sub-type, request id) pairs and one frame of every other kind and Trace_Conn validates the recorded writes.")
    mc(chk, "c07_pong", consts(MaxFrames="= 3", Classes="<- ClsPong", Verifies="<- GateOn", MaxPending="= 1" if thorough else "= 0"),
       needs=("PongWrite",))
    mc(chk, "c07_mut_single", consts(MaxFrames="= 2", Classes="<- ClsPong", Flavors="<- OnlyBlocking", Verifies="<- GateOn",
                                     WritePolicy='= "single_write"'), expect_violation="PongsOk")
    nd, n = emit(chk, "c07_emit", consts(MaxFrames="= 3", Classes="<- ClsPong", Verifies="<- GateOn", FrameOK="<- FrameReal",
                                         EmSmallFills="= 1", EmSizes="<- S134", EmPong="<- S13"))
    replay(chk, nd, chk.seed)
    # the transport fails the write of the reply (at once or after 1..3 of its bytes): read() must report the error, never
    # hand out the keep-alive as if it had been answered
    mc(chk, "c07_wfail", consts(MaxFrames="= 2", Classes="<- ClsPong", Verifies="<- GateOn", WriteFailures="= TRUE"), needs=("PongFail",))
    nd, n = emit(chk, "c07_emit_wfail", consts(MaxFrames="= 2", Classes="<- ClsPong", Verifies="<- GateOn", FrameOK="<- FrameReal",
                                               WriteFailures="= TRUE", EmSmallFills="= 0", EmPong="<- S13"))
    replay(chk, nd, chk.seed + 2)
    # tokio: the read is cancelled after part of the reply was accepted; the next read / write completes that reply - the peer
    # still sees exactly one TINY_NONE per keep-alive (nothing re-sent from the start, nothing dropped)
    nd, n = emit(chk, "c07_emit_cancel", consts(MaxFrames="= 1", Classes="<- ClsKa", Flavors="<- OnlyTokio", Verifies="<- GateOn", FrameOK="<- FrameReal",
                                                MaxPending="= 1", MaxCancel="= 1", MaxWrites="= 1", WLens="<- W8", EmSmallFills="= 0",
                                                EmPong="<- S13", EmWacc="<- None"), timeout=600)
    replay(chk, nd, chk.seed + 3)
    # a transport that queues writes (the websocket one): the reply has only left when the transport was flushed - behaviours in
    # which the socket is blocked while the reply is on its way, with Pending flushes and cancelled reads (see C20)
    nd, n = emit(chk, "c07_emit_bp", consts(Transports="<- TWs", Classes="<- ClsKa", Flavors="<- OnlyTokio", Verifies="<- GateOn", MaxFrames="= 1",
                                            FrameOK="<- FrameReal", MaxWrites="= 1", WLens="<- W8", MaxBlock="= 1", MaxPending="= 1", MaxCancel="= 1",
                                            MaxQueued="= 1", EmSmallFills="= 3", EmSizes="<- S134", EmBp="= TRUE"), timeout=900)
    replay(chk, nd, chk.seed + 4, wsq=True)
    p = os.path.join(WORK, "c07_sweep.ndjson")
    out = harness(["conn-sweep", "--what", "tiny", "--out", p, "--seed", str(chk.seed), "--half", "0" if thorough else "1"])
    chk.extra["sweep"] = json.loads(out.strip().splitlines()[-1])
    sample_trace(chk, p)
    trace_validate(chk, "c07_sweep", p, "TINY sweep")
    for i in range(3 if thorough else 1):
        p, info = gen_trace(f"c07_trace{i}", chk.seed * 100 + i, sessions=8, frames=150, extra=["--kaheavy", "1"])
        trace_validate(chk, f"c07_tv{i}", p, "keep-alive heavy session")
    chk.assumptions += ["'keep-alive' is decided from the frame bytes (type 3, request id 0, sub-type 0) by the harness, independently of Packet::maybe_pong"]


def check_C09(chk):
    """InSim version gate."""
    from checks_data import builder_gate
    chk.rule = ("TLC explores version-9 / other-version / other packets with the gate on and off (InOrder with Expected = "
                "version_err iff gate on and version # 9); behaviours are replayed with concrete VER frames; a deterministic "
                "sweep sends all 256 version values in first / middle / last position, gate on and off, both flavours and "
                "size modes, plus one frame of every other kind with the gate on, validated by Trace_Conn.")
    mc(chk, "c09_gate", consts(MaxFrames="= 3", Classes="<- ClsGate"), needs=("TryDecode",))
    nd, n = emit(chk, "c09_emit", consts(MaxFrames="= 2", Lens="<- L4820", Classes="<- ClsGate", Cap="= 24", FrameOK="<- FrameReal",
                                         EmSmallFills="= 1", EmSizes="<- S_4_19_20"))
    replay(chk, nd, chk.seed)
    # the gate is a property of the connection, not of what the program says about itself: Framed::handshake with an IS_ISI of any
    # version (LfsConn.DoHandshake = the write of one 44-byte frame, cfg untouched), then VER frames of both kinds, gate on and off
    mc(chk, "c09_handshake", consts(MaxFrames="= 2", Classes="<- ClsGate", MaxWrites="= 1", WLens="<- W44"), needs=("DoHandshake", "TryDecode"))
    nd, n = emit(chk, "c09_emit_hs", consts(MaxFrames="= 1", Lens="<- L4820", Classes="<- ClsGate", Cap="= 24", FrameOK="<- FrameReal",
                                            MaxWrites="= 1", WLens="<- W44", EmSmallFills="= 0", EmSizes="<- S_4_19_20"))
    for k in range(6):      # six handshakes with different version fields / options per behaviour
        replay(chk, nd, chk.seed + 7 + k)
    p = os.path.join(WORK, "c09_sweep.ndjson")
    out = harness(["conn-sweep", "--what", "version", "--out", p, "--seed", str(chk.seed)])
    chk.extra["sweep"] = json.loads(out.strip().splitlines()[-1])
    sample_trace(chk, p)
    trace_validate(chk, "c09_sweep", p, "version sweep")
    chk.exhaustive = True
    # "only when enabled": the switch is Builder::verify_version (on by default); whatever the builder was told, the connection it
    # returns must behave accordingly (TCP / UDP, blocking / tokio)
    builder_gate(chk)
    chk.assumptions += ["the relay transport (which needs the Internet) is not exercised"]


def check_C19(chk):
    """Cancelling a pending async read loses nothing."""
    thorough = chk.tier == "thorough"
    chk.rule = ("TLC explores the tokio connection with Pending on both halves and the read future dropped at every suspension "
                "point (<= MaxCancel times), checking InOrder / NoLoss / PongsOk / NoPartialPong; every behaviour is replayed by "
                "polling the real read() future by hand under a paused clock and dropping it at the scripted poll; random "
                "sessions where a ticker wins at random polls are validated by Trace_Conn.")
    mc(chk, "c19_cancel", consts(MaxFrames="= 3", Classes="<- ClsSmall", Flavors="<- OnlyTokio", Verifies="<- GateOn",
                                 MaxPending="= 2" if thorough else "= 1", MaxCancel="= 3" if thorough else "= 2", MaxTimeout="= 1"),
       needs=("Cancel", "FillPending", "PongPending"))
    mc(chk, "c19_mut_inline", consts(MaxFrames="= 2", Classes="<- ClsUdp", Flavors="<- OnlyTokio", Verifies="<- GateOn",
                                     MaxPending="= 1", MaxCancel="= 1", PongPolicy='= "inline"'), expect_violation="PongsOk")
    nd, n = emit(chk, "c19_emit", consts(MaxFrames="= 2", Classes="<- ClsPong", Flavors="<- OnlyTokio", Verifies="<- GateOn",
                                         MaxPending="= 1", MaxCancel="= 2", MaxTimeout="= 1" if thorough else "= 0", FrameOK="<- FrameReal",
                                         EmSmallFills="= 1", EmSizes="<- S134" if thorough else "<- S1", EmPong="<- S13" if thorough else "<- S1"),
                 timeout=1500)
    replay(chk, nd, chk.seed)
    # a user write after a cancelled read must complete the interrupted reply first (no interleaved frames)
    mc(chk, "c19_cancel_write", consts(MaxFrames="= 2", Classes="<- ClsPong", Flavors="<- OnlyTokio", Verifies="<- GateOn",
                                       MaxPending="= 1", MaxCancel="= 2", MaxWrites="= 1", WLens="<- W4"), needs=("Cancel", "PongFinish"))
    nd, n = emit(chk, "c19_emit_w", consts(MaxFrames="= 1", Classes="<- ClsKa", Flavors="<- OnlyTokio", Verifies="<- GateOn",
                                           MaxPending="= 1", MaxCancel="= 1", MaxWrites="= 1", WLens="<- W8", FrameOK="<- FrameReal",
                                           EmSmallFills="= 0", EmPong="<- S13" if thorough else "<- S1", EmWacc="<- S13" if thorough else "<- None"),
                 timeout=1500)
    replay(chk, nd, chk.seed + 1)
    # cancellation at the FLUSH suspension point of a queueing transport (the websocket one): all bytes of the reply were handed
    # over, the flush was interrupted - the next read (or write) must finish it (LfsConn held / WsBlock, as in C07 / C20)
    nd, n = emit(chk, "c19_emit_bp", consts(Transports="<- TWs", Classes="<- ClsKa", Flavors="<- OnlyTokio", Verifies="<- GateOn", MaxFrames="= 1",
                                            FrameOK="<- FrameReal", MaxWrites="= 1", WLens="<- W8", MaxBlock="= 1", MaxPending="= 1", MaxCancel="= 2" if thorough else "= 1",
                                            MaxQueued="= 1", EmSmallFills="= 3", EmSizes="<- S134", EmBp="= TRUE"), timeout=900)
    replay(chk, nd, chk.seed + 9, wsq=True)
    # long behaviours with many cancellations by random walks (keep-alive heavy)
    nd, n = emit_sim(chk, "c19_sim", consts(MaxFrames="= 12", Lens="<- L48", Classes="<- ClsPong", Flavors="<- OnlyTokio", Verifies="<- GateOn",
                                            FrameOK="<- FrameReal", MaxPending="= 4", MaxCancel="= 6", MaxTimeout="= 1", MaxWrites="= 2", WLens="<- W48",
                                            EmSizes="<- S134", EmPong="<- S13", EmWacc="<- S13"),
                     num=1500 if thorough else 60, seed=chk.seed, min_frames=8)
    replay(chk, nd, chk.seed + 6)
    for i in range(4 if thorough else 1):
        p, info = gen_trace(f"c19_trace{i}", chk.seed * 100 + i, sessions=8, frames=150, flavor="tokio", cancels=True, writes=True,
                            extra=["--kaheavy", "1"])
        if i == 0:
            sample_trace(chk, p)
        trace_validate(chk, f"c19_tv{i}", p, "session with cancelled reads")
    chk.assumptions += ["the read future is polled by hand with a no-op waker under tokio's paused clock; suspension points are the transport's Pending results"]


def replay_conn_case(case):
    """bin/check Cxx --replay: re-run one stored behaviour / trace."""
    chk = Check("replay", "quick", 1)
    if case["kind"] == "conn-replay":
        os.makedirs(WORK, exist_ok=True)
        nd = os.path.join(WORK, "replay_case.ndjson")
        open(nd, "w").write(json.dumps(case["behaviour"]) + "\n")
        out = harness(["conn-replay", "--in", nd])
        bad = [json.loads(l) for l in out.splitlines() if '"mismatch"' in l]
        for b in bad:
            print("MISMATCH:", b["mode"], b["mismatch"])
        return 1 if bad else 0
    if case["kind"] == "net-replay":
        os.makedirs(WORK, exist_ok=True)
        nd = os.path.join(WORK, "replay_case.ndjson")
        open(nd, "w").write(json.dumps(case["behaviour"]) + "\n")
        out = harness(["net-replay", "--in", nd])
        bad = [json.loads(l) for l in out.splitlines() if '"mismatch"' in l]
        for b in bad:
            print("MISMATCH:", b["mode"], b["mismatch"])
        return 1 if bad else 0
    if case["kind"] == "conn-trace":
        os.makedirs(WORK, exist_ok=True)
        tp = os.path.join(WORK, "replay_case_trace.ndjson")
        if "events" in case:
            open(tp, "w").write("".join(json.dumps(e) + "\n" for e in case["events"]))
        else:
            tp = case["trace_file"]
        r = tlc("Trace_Conn", os.path.join(SPEC, "Trace_Conn.cfg"), "replay_case", workers=1,
                env={"TRACE": tp}, trace_mode=True)
        print("accepted" if r.ok else f"rejected: {r.rejected}")
        return 0 if r.ok else 1
    return 2


def net_replay(chk, nd, seed, stride=1):
    """spec -> impl on real loopback sockets (udp / ws behaviours)."""
    outp = nd + ".netreplay.out"
    harness(["net-replay", "--in", nd, "--seed", str(seed), "--stride", str(stride)], stdout_path=outp, timeout=3000)
    summary = None
    with open(outp) as f:
        for line in f:
            v = json.loads(line)
            if "summary" in v:
                summary = v["summary"]
            elif "mismatch" in v:
                key = f"net-replay:{v['behaviour']['cfg']['transport']}:{v['flavor']}:" + norm_key(v["mismatch"])
                chk.violation(key, v["mismatch"], {"kind": "net-replay", "mode": v["mode"], "behaviour": v["behaviour"]})
    if summary is None:
        raise ToolError("net-replay printed no summary")
    chk.traces += summary["executed"] - summary["skipped"]
    chk.extra.setdefault("replay", []).append(summary)
    with open(nd) as f:
        for i, line in enumerate(f):
            b = json.loads(line)
            chk.case(b)
            if i < 2:
                chk.sample({"behaviour": b})
    log(f"[net-replay] {summary}")
    return summary


def gen_net_trace(name, transport, seed, sessions, nbytes, writes=True, burst=0):
    p = os.path.join(WORK, name + ".ndjson")
    out = harness(["net-trace", "--transport", transport, "--out", p, "--seed", str(seed), "--sessions", str(sessions),
                   "--bytes", str(nbytes), "--writes", "1" if writes else "0", "--burst", str(burst)], timeout=3000)
    return p, json.loads(out.strip().splitlines()[-1])


def check_C08(chk):
    """UDP datagrams delivered intact for arbitrarily long sessions."""
    thorough = chk.tier == "thorough"
    chk.rule = ("TLC explores the buffered UDP adaptor under a receive buffer whose spare capacity shrinks below a datagram "
                "(InOrder/NoLoss/BufferInv/UnitsOk); the 'direct' adaptor (datagram truncated to the offered slice) must fail. "
                "Behaviours are replayed on real loopback UDP sockets with the blocking and tokio UdpStream; paced random "
                "sessions (1..n packets per datagram, sizes 4..1020, traffic far beyond 6120 bytes) are recorded and every "
                "result and every datagram observed by the peer is validated by Trace_Conn.")
    mc(chk, "c08_udp", consts(Transports="<- TUdp", Classes="<- ClsUdp", Verifies="<- GateOn", MaxFrames="= 5" if thorough else "= 4",
                              MaxErr="= 1", MaxWrites="= 1", WLens="<- W4"), needs=("DoPeerDgram2", "FillUdpBuffered"))
    live(chk, "c08_live", consts(Transports="<- TUdp", Classes="<- ClsUdp", Verifies="<- GateOn", MaxFrames="= 3", KeepHist="= FALSE"))
    mc(chk, "c08_mut_direct", consts(Transports="<- TUdp", Classes="<- ClsUdp", Flavors="<- OnlyTokio", Verifies="<- GateOn",
                                     MaxFrames="= 4", UdpPolicy='= "direct"'), expect_violation="NoLoss")
    nd, n = emit(chk, "c08_emit", consts(Transports="<- TUdp", Classes="<- ClsPong", Verifies="<- GateOn", MaxFrames="= 3",
                                         FrameOK="<- FrameReal", MaxWrites="= 1", WLens="<- W8"))
    net_replay(chk, nd, chk.seed)
    for i in range(3 if thorough else 1):
        p, info = gen_net_trace(f"c08_trace{i}", "udp", chk.seed * 100 + i, sessions=8 if thorough else 4, nbytes=60000 if thorough else 15000)
        if i == 0:
            sample_trace(chk, p, 8)
        trace_validate(chk, f"c08_tv{i}", p, "udp session")
    chk.assumptions += ["loopback UDP with one datagram in flight (the sender is paced by the receiver); a read that does not complete in 1.5 s is recorded as a timeout"]


def check_C20(chk):
    """The WebSocket transport carries the same byte stream as TCP."""
    thorough = chk.tier == "thorough"
    chk.rule = ("TLC explores the ws adaptor: the relay's byte stream split into binary messages at arbitrary positions, "
                "text / ping / empty messages interleaved, closure; same invariants as the stream transport plus one message "
                "per written frame. Behaviours are replayed against a loopback tungstenite server with the real WebsocketStream "
                "inside the real tokio Framed; random sessions (messages of 1 byte up to > 1020 bytes) are validated by Trace_Conn.")
    mc(chk, "c20_ws", consts(Transports="<- TWs", Classes="<- ClsUdp", Flavors="<- OnlyTokio", Verifies="<- GateOn",
                             MaxFrames="= 3" if thorough else "= 2", MaxWrites="= 1", WLens="<- W4"), timeout=3000,
       needs=("PeerWsPack", "PeerWsOther", "FillWs", "FillEof"))
    # write-side back pressure: with the required policy (a write completes only when the library has handed the message on)
    # every frame has left when the operation is over; the adaptor that ignores a flush that is not ready must fail AllLeft
    mc(chk, "c20_backpressure", consts(Transports="<- TWs", Classes="<- ClsKa", Flavors="<- OnlyTokio", Verifies="<- GateOn", MaxFrames="= 1",
                                       MaxWrites="= 2", WLens="<- W4", MaxBlock="= 2"), needs=("WsBlock", "WsUnblock", "WriteAccept"))
    mc(chk, "c20_mut_noflush", consts(Transports="<- TWs", Classes="<- ClsKa", Flavors="<- OnlyTokio", Verifies="<- GateOn", MaxFrames="= 1",
                                      MaxWrites="= 2", WLens="<- W4", MaxBlock="= 1", FlushPolicy='= "no_flush"'), expect_violation="AllLeft")
    # ... and the connection's side of it, deterministically: behaviours in which the socket blocks and unblocks while a reply or
    # a user frame is on its way, with Pending flushes and cancelled reads, replayed on the real tokio Framed over a scripted
    # transport that queues writes the way the websocket adaptor does
    nd, n = emit(chk, "c20_emit_bp", consts(Transports="<- TWs", Classes="<- ClsKa", Flavors="<- OnlyTokio", Verifies="<- GateOn", MaxFrames="= 1",
                                            FrameOK="<- FrameReal", MaxWrites="= 1", WLens="<- W8", MaxBlock="= 1", MaxPending="= 1", MaxCancel="= 1",
                                            MaxQueued="= 1", EmSmallFills="= 3", EmSizes="<- S134", EmBp="= TRUE"), timeout=900)
    replay(chk, nd, chk.seed + 9, wsq=True)
    live(chk, "c20_live", consts(Transports="<- TWs", Classes="<- ClsUdp", Flavors="<- OnlyTokio", Verifies="<- GateOn", MaxFrames="= 2",
                                 KeepHist="= FALSE", MaxQueued="= 1"))
    nd, n = emit(chk, "c20_emit", consts(Transports="<- TWs", Classes="<- ClsPong", Flavors="<- OnlyTokio", Verifies="<- GateOn",
                                         MaxFrames="= 2", FrameOK="<- FrameReal", MaxWrites="= 0", EmSizes="<- S134", MaxQueued="= 1"))
    net_replay(chk, nd, chk.seed, stride=1 if thorough else 6)
    for i in range(3 if thorough else 1):
        p, info = gen_net_trace(f"c20_trace{i}", "ws", chk.seed * 100 + i, sessions=8 if thorough else 4, nbytes=40000 if thorough else 12000)
        if i == 0:
            sample_trace(chk, p, 10)
        trace_validate(chk, f"c20_tv{i}", p, "websocket session")
    # write side under back pressure: small frames and frames of the mode's maximum written back to back while the relay does
    # not read until the writer stalls; every message the relay finally received is a Unit event: one per written frame, in
    # order, none twice, none missing
    p, info = gen_net_trace("c20_burst", "ws", chk.seed * 100 + 50, sessions=0, nbytes=100, writes=False, burst=600 if thorough else 400)
    chk.extra["burst"] = info
    if info.get("burst_stalls", 0) == 0:
        chk.assumptions += ["the back-pressure burst did not stall the writer on this run (socket buffers absorbed it): the burst trace then only shows ordering"]
    trace_validate(chk, "c20_burst_tv", p, "websocket burst under back pressure", inv_every=25)
    chk.assumptions += ["the relay is a loopback tokio-tungstenite server; the real relay (Internet) is not exercised"]
