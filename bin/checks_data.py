"""Checks decided with LfsWire / LfsText / LfsValues / LfsFiles / LfsBuilder."""
import json, os, collections
from vlib import *

WIRE_STAGES = {
    "C01": {"roundtrip-typed", "roundtrip-bytes", "refuses-representable"},
    "C02": {"layout-encode", "layout-decode", "layout-reencode"},
    "C03": {"malformed-frame", "emits-unrepresentable", "reencode-fails"},
}


def wire_vectors(chk, name="wire_gen"):
    """TLC walks MC_Wire and prints one line per vector (record, SpecEncode image, outcome)."""
    cfg = write_cfg(name, "Spec", {"Tier": f'= "{chk.tier}"'}, invariants=["WellFormed"])
    r = tlc("MC_Wire", cfg, name, workers=1, timeout=1500, coverage=False, env={"JAVA_TOOL_OPTIONS": "-Xss1g"})
    if r.violated:
        raise ToolError(f"the specification's own frames violate {r.violated} (see {r.out_path})")
    nd = os.path.join(WORK, name + ".ndjson")
    n = extract_emitted(r.out_path, nd, tag="VEC")
    chk.add_tlc(name, r)
    # the table walk is one state per packet kind; count what it emitted as evaluations of SpecEncode
    chk.states += n
    chk.transitions += n
    log(f"[tlc] {name}: {n} vectors ({r.wall:.0f}s)")
    if n < 1000:
        raise ToolError("vector generator produced suspiciously few vectors")
    return nd, n


def wire_replay(chk, nd, stages):
    outp = nd + ".replay.out"
    harness(["wire-replay", "--in", nd], stdout_path=outp)
    summary = None
    with open(outp) as f:
        for line in f:
            v = json.loads(line)
            if "summary" in v:
                summary = v["summary"]
            elif "build_error" in v:
                raise ToolError(f"harness could not build a packet from a vector: {v['build_error']}")
            elif "finding" in v:
                fd = v["finding"]
                if fd["stage"] in stages:
                    key = f"wire:{v['kind']}:{fd['stage']}:{norm_key(fd['field'])}"
                    chk.violation(key, f"{v['kind']} ({v['mode']}) {fd['stage']}: {fd['detail'][:400]}", {"kind": "wire-vector", "vector": v["vector"], "stage": fd["stage"]})
    if summary is None:
        raise ToolError("wire-replay printed no summary")
    chk.traces += summary["vectors"]
    chk.extra["replay"] = summary
    with open(nd) as f:
        for i, line in enumerate(f):
            b = json.loads(line)
            chk.case(b)
            if i in (0, 700, 2500):
                chk.sample(b)
    log(f"[wire-replay] {summary}")
    return summary


def _wire_check(chk, pid, rule):
    chk.rule = rule
    nd, n = wire_vectors(chk, f"{pid.lower()}_gen")
    wire_replay(chk, nd, WIRE_STAGES[pid])
    chk.assumptions += ["the oracle is spec/LfsWire.tla, a transcription of InSim.txt (v9) and the relay description made from memory (no network); "
                        "time-unit remarks and the signedness of char fields are outside the oracle",
                        "32-bit fields are covered at boundary values, not exhaustively; text in these vectors is ASCII (code pages: C10-C12)"]


def check_C01(chk):
    _wire_check(chk, "C01", "TLC walks the LfsWire table: per kind a base record with distinct recognisable values plus one-field-at-a-time "
                "sweeps (every enumerant, every single flag bit / none / all, boundary integers, all 16 nibble values, text lengths, element "
                "counts), both size modes. Each record is built as a real Packet, encoded, decoded and re-encoded; the decoded record must "
                "equal the original and the bytes must be stable; a packet the specification can represent must not be refused.")


def check_C02(chk):
    _wire_check(chk, "C02", "Same vectors; the frame produced by Codec::encode must equal SpecEncode byte for byte, and the frame SpecEncode "
                "builds must decode to exactly the record it was built from (every public field read through the projection).")


def check_C03(chk):
    _wire_check(chk, "C03", "Same vectors plus vectors outside the wire domain (element counts around the protocol maximum and around what fits "
                "a frame in either size mode up to 255, nibble 16, durations beyond the field): whenever the encoder returns Ok the frame must "
                "be one well-formed frame equal to SpecEncode; where the specification says `refused` it must fail; a decoded packet must re-encode.")


def replay_case(case):
    if case["kind"] == "wire-vector":
        os.makedirs(WORK, exist_ok=True)
        nd = os.path.join(WORK, "replay_case_vec.ndjson")
        open(nd, "w").write(json.dumps(case["vector"]) + "\n")
        out = harness(["wire-replay", "--in", nd])
        bad = 0
        for l in out.splitlines():
            v = json.loads(l)
            if "finding" in v and (not case.get("stage") or v["finding"]["stage"] == case["stage"]):
                print("FINDING:", v["finding"]["stage"], v["finding"]["detail"][:300])
                bad += 1
        return 1 if bad else 0
    return 2
