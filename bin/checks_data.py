"""Checks decided with LfsWire / LfsText / LfsValues / LfsFiles / LfsBuilder."""
import json, os, collections
from vlib import *

WIRE_STAGES = {
    "C01": {"roundtrip-typed", "roundtrip-bytes", "refuses-representable"},
    "C02": {"layout-encode", "layout-decode", "layout-reencode"},
    "C03": {"malformed-frame", "emits-unrepresentable", "reencode-fails"},
}


def wire_vectors(chk, name="wire_gen"):
    """TLC walks MC_Wire and prints one line per vector (record, SpecEncode image, outcome)."""
    cfg = write_cfg(name, "Spec", {"Tier": f'= "{chk.tier}"'}, invariants=["WellFormed"])
    r = tlc("MC_Wire", cfg, name, workers=1, timeout=1500, coverage=False, env={"JAVA_TOOL_OPTIONS": "-Xss1g"})
    if r.violated:
        raise ToolError(f"the specification's own frames violate {r.violated} (see {r.out_path})")
    nd = os.path.join(WORK, name + ".ndjson")
    n = extract_emitted(r.out_path, nd, tag="VEC")
    chk.add_tlc(name, r)
    # the table walk is one state per packet kind; count what it emitted as evaluations of SpecEncode
    chk.states += n
    chk.transitions += n
    log(f"[tlc] {name}: {n} vectors ({r.wall:.0f}s)")
    if n < 1000:
        raise ToolError("vector generator produced suspiciously few vectors")
    return nd, n


def wire_replay(chk, nd, stages):
    outp = nd + ".replay.out"
    harness(["wire-replay", "--in", nd], stdout_path=outp)
    summary = None
    with open(outp) as f:
        for line in f:
            v = json.loads(line)
            if "summary" in v:
                summary = v["summary"]
            elif "build_error" in v:
                raise ToolError(f"harness could not build a packet from a vector: {v['build_error']}")
            elif "finding" in v:
                fd = v["finding"]
                if fd["stage"] in stages:
                    key = f"wire:{v['kind']}:{fd['stage']}:{norm_key(fd['field'])}"
                    chk.violation(key, f"{v['kind']} ({v['mode']}) {fd['stage']}: {fd['detail'][:400]}", {"kind": "wire-vector", "vector": v["vector"], "stage": fd["stage"]})
    if summary is None:
        raise ToolError("wire-replay printed no summary")
    chk.traces += summary["vectors"]
    chk.extra["replay"] = summary
    with open(nd) as f:
        for i, line in enumerate(f):
            b = json.loads(line)
            chk.case(b)
            if i in (0, 700, 2500):
                chk.sample(b)
    log(f"[wire-replay] {summary}")
    return summary


def wire_trace_validate(chk, name, trace_path, what, pid_filter=None):
    """impl -> spec: TLC explains recorded codec events with Trace_Wire (SpecEncode / DecodeAllowed) or rejects them."""
    r = tlc("Trace_Wire", os.path.join(SPEC, "Trace_Wire.cfg"), name, workers=1, env={"TRACE": trace_path}, timeout=1800, trace_mode=True)
    chk.add_tlc(name, r)
    nev = sum(1 for _ in open(trace_path))
    chk.evaluations += nev
    if r.violated:
        idx, ev = r.rejected if r.rejected else (0, {})
        if ev.get("ev") == "Enc":
            key = f"trace:Enc:{ev.get('kind')}:{ev.get('res')}"
        elif ev.get("ev") == "Dec":
            key = f"trace:Dec:{ev.get('res')}:type{(ev.get('buf') or [0, 0])[1] if len(ev.get('buf') or []) > 1 else 'none'}:{ev.get('tag')}" + ("" if ev.get("ctx_ok", True) else ":depends-on-following-bytes")
        else:
            key = f"trace:{ev.get('ev')}:{ev.get('mode')}:{norm_key(json.dumps(ev.get('seen')))}"
        chk.violation(key, f"{what}: event {idx} is not allowed by the specification: {json.dumps(ev)[:600]}",
                      {"kind": "wire-trace", "events": [ev]})
    else:
        chk.traces += 1
    log(f"[trace] {name}: {nev} events, {'accepted' if r.ok else 'REJECTED'} in {r.wall:.0f}s")
    return r


def _wire_check(chk, pid, rule):
    chk.rule = rule
    nd, n = wire_vectors(chk, f"{pid.lower()}_gen")
    wire_replay(chk, nd, WIRE_STAGES[pid])
    # impl -> spec: records recombined from the vectors' field values (field interactions), encoded by the real codec
    tp = os.path.join(WORK, f"{pid.lower()}_cross.ndjson")
    out = harness(["wire-cross", "--vectors", nd, "--out", tp, "--seed", str(chk.seed), "--per", "150" if chk.tier == "thorough" else "30",
                   "--dense", "5000" if chk.tier == "thorough" else "500"])
    wire_trace_validate(chk, f"{pid.lower()}_cross", tp, "recombined record")
    chk.assumptions += ["the oracle is spec/LfsWire.tla, a transcription of InSim.txt (v9) and the relay description made from memory (no network); "
                        "time-unit remarks and the signedness of char fields are outside the oracle",
                        "32-bit fields are covered at boundary values, not exhaustively; text in these vectors is ASCII (code pages: C10-C12)"]


def text_frames(chk, pid, also=()):
    """Every text-bearing packet with ASCII / Latin-1 / Cyrillic / double-byte / switching / caret-trail texts of every length, in both
    size modes: Trace_Text.TFrame (frame laws; a text that fits comes back unchanged and re-encodes to the same frame)."""
    tp = os.path.join(WORK, f"{pid}_fields.ndjson")
    out = harness(["text-fields", "--out", tp, "--tier", chk.tier])
    chk.extra["text_frames"] = json.loads(out.strip().splitlines()[-1])
    text_trace_validate(chk, f"{pid}_fields", tp, "frame of a text-bearing packet", only={"Frame", "Panic"} | set(also))


def check_C01(chk):
    _wire_check(chk, "C01", "TLC walks the LfsWire table: per kind a base record with distinct recognisable values plus one-field-at-a-time "
                "sweeps (every enumerant, every single flag bit / none / all, boundary integers, all 16 nibble values, text lengths, element "
                "counts), both size modes. Each record is built as a real Packet, encoded, decoded and re-encoded; the decoded record must "
                "equal the original and the bytes must be stable; a packet the specification can represent must not be refused. "
                "Text that is not ASCII (Latin-1, Cyrillic, double-byte, a code page switch at every character, double-byte characters whose trail "
                "byte is a caret followed by code page letters) is carried through every text field of every kind: a text that fits its field "
                "must come back unchanged and re-encode to the same frame (Frame events, Trace_Text.TFrame).")
    # IS_MSO has a writer of its own (name and text are one string, the text start is an offset): frames built the way LFS builds
    # them, with names in several code pages, decode and re-encode to the same frame (MsoDec events)
    text_frames(chk, "c01", also={"MsoDec"})


def check_C02(chk):
    _wire_check(chk, "C02", "Same vectors; the frame produced by Codec::encode must equal SpecEncode byte for byte, and the frame SpecEncode "
                "builds must decode to exactly the record it was built from (every public field read through the projection). IS_MSO frames "
                "built the way LFS builds them (name and text as ONE code-page string, text start = encoded length of the name, names and texts "
                "in several code pages) must decode to the whole message with the text start at the decoded name's length, and re-encode to "
                "the same frame (MsoDec events validated by Trace_Text).")
    tp = os.path.join(WORK, "c02_mso.ndjson")
    harness(["text-fields", "--out", tp, "--tier", "quick"])
    text_trace_validate(chk, "c02_mso", tp, "IS_MSO frame", only={"MsoDec"})


def check_C03(chk):
    _wire_check(chk, "C03", "Same vectors plus vectors outside the wire domain (element counts around the protocol maximum and around what fits "
                "a frame in either size mode up to 255, nibble 16, durations beyond the field): whenever the encoder returns Ok the frame must "
                "be one well-formed frame equal to SpecEncode; where the specification says `refused` it must fail; a decoded packet must re-encode. "
                "In addition every text-bearing packet is encoded in both size modes with ASCII / Latin-1 / Cyrillic / double-byte / mixed texts of "
                "every encoded length 0..N+2 (thorough 0..2N): Trace_Text.TFrame requires one well-formed frame that decodes whole as the same kind.")
    text_frames(chk, "c03")


def check_C04(chk):
    """Decoding untrusted bytes is total, bounded and always progresses."""
    thorough = chk.tier == "thorough"
    chk.rule = ("Every (size byte, type byte) header pair x both size modes x buffer lengths {0,1,3,4,n-1,n,n+4,1024}; every byte "
                "of one valid frame of every kind set to all 256 values; seeded mutations of valid frames (bit flips, truncations, "
                "extensions, size-byte edits, two frames) and random buffers. The harness records outcome and buffer effect of the real "
                "Codec::decode (panics are caught and are data) and TLC validates every event against DecodeAllowed of LfsWire: need-more "
                "leaves the buffer untouched, packet / decode error remove exactly the announced n >= 4 bytes, framing error only for an "
                "impossible length, never a panic; every decoded packet must re-encode without aborting.")
    nd, n = wire_vectors(chk, "c04_gen")
    tp = os.path.join(WORK, "c04_fuzz.ndjson")
    out = harness(["wire-fuzz", "--vectors", nd, "--out", tp, "--seed", str(chk.seed), "--events", "400000" if thorough else "40000"])
    chk.extra["fuzz"] = json.loads(out.strip().splitlines()[-1])
    # harness-side facts TLC does not see: the re-encode result of decoded packets
    cases = 0
    with open(tp) as f:
        for i, line in enumerate(f):
            e = json.loads(line)
            cases += e.get("cases", 1)
            if e.get("reenc") == "panic":
                chk.violation(f"reencode-panic:type{e['buf'][1]}", f"a packet obtained by decoding makes the encoder abort: {e['buf']}",
                              {"kind": "wire-trace", "events": [e]})
            if i in (5, 4000, 9000):
                chk.sample({k: v for k, v in e.items() if k != "buf"} | {"buf_prefix": (e.get("buf") or [])[:16]})
            chk.case({"sb": e.get("sb"), "len": e.get("len"), "res": e.get("res"), "tag": e.get("tag"), "seen": e.get("seen"), "o": e.get("offset"), "k": e.get("kind")})
    chk.extra["decode_calls"] = cases
    chk.traces += cases
    wire_trace_validate(chk, "c04_tv", tp, "decode")
    chk.exhaustive = False
    chk.assumptions += ["exhaustive over headers and single-byte substitutions only; beyond that seeded mutation sampling",
                        "memory safety of the unsafe buffer fill in Framed is not addressed by this technique"]


def values_trace_validate(chk, name, trace_path, what):
    r = tlc("Trace_Values", os.path.join(SPEC, "Trace_Values.cfg"), name, workers=1, env={"TRACE": trace_path}, timeout=3000, trace_mode=True)
    chk.add_tlc(name, r)
    nev = sum(1 for _ in open(trace_path))
    chk.evaluations += nev
    chk.traces += nev if r.ok else 0
    if r.violated:
        idx, ev = r.rejected if r.rejected else (0, {})
        sig = {k: v for k, v in ev.items() if k in ("ev", "res", "k", "kind", "field", "cls")}
        if ev.get("ev") in ("LapsEnc", "LapsDec"):
            sig["v"] = "in-range" if (ev.get("k") == "Laps" and 1 <= ev.get("v", 0) <= 1000) or (ev.get("k") == "Hours" and 1 <= ev.get("v", 0) <= 48) else "out-of-range"
        key = "trace:" + json.dumps(sig, sort_keys=True)
        chk.violation(key, f"{what}: event {idx} is not explained by the specification: {json.dumps(ev)[:500]}", {"kind": "values-trace", "events": [ev]})
    log(f"[trace] {name}: {nev} events, {'accepted' if r.ok else 'REJECTED'} in {r.wall:.0f}s")
    return r


def values_vectors(chk, name, maxlen):
    cfg = write_cfg(name, "Spec", {"MaxLen": f"= {maxlen}"})
    r = tlc("MC_Values", cfg, name, workers=1, timeout=1500, coverage=False, env={"JAVA_TOOL_OPTIONS": "-Xss1g"})
    if r.violated:
        raise ToolError(f"MC_Values: {r.violated}")
    nd = os.path.join(WORK, name + ".ndjson")
    n = extract_emitted(r.out_path, nd, tag="VAL")
    chk.add_tlc(name, r)
    chk.states += n
    chk.transitions += n
    log(f"[tlc] {name}: {n} enumerated inputs ({r.wall:.0f}s)")
    return nd, n


def _sample_events(chk, path, picks=(0, 1000, 30000)):
    with open(path) as f:
        for i, line in enumerate(f):
            e = json.loads(line)
            chk.case(e)
            if i in picks:
                chk.sample(e)


def _values_check(chk, what, rule, replay_filter=None, maxlen=None):
    chk.rule = rule
    thorough = chk.tier == "thorough"
    if replay_filter:
        nd, n = values_vectors(chk, f"{chk.pid.lower()}_gen", maxlen or 5)
        tp = os.path.join(WORK, f"{chk.pid.lower()}_replay.ndjson")
        out = harness(["values-replay", "--in", nd, "--out", tp])
        # keep only the events of this property
        tp2 = tp + ".filtered"
        with open(tp) as f, open(tp2, "w") as o:
            for line in f:
                if json.loads(line)["ev"] in replay_filter:
                    o.write(line)
        _sample_events(chk, tp2)
        values_trace_validate(chk, f"{chk.pid.lower()}_replay", tp2, "input enumerated by TLC")
    tp = os.path.join(WORK, f"{chk.pid.lower()}_trace.ndjson")
    out = harness(["values-trace", "--what", what, "--out", tp, "--seed", str(chk.seed), "--tier", chk.tier], timeout=3000)
    chk.extra["driver"] = json.loads(out.strip().splitlines()[-1])
    _sample_events(chk, tp)
    values_trace_validate(chk, f"{chk.pid.lower()}_trace", tp, "recorded conversion")


def check_C13(chk):
    _values_check(chk, "veh", "LfsValues.VehClass (InSim v9 rule) in two forms that TLC proves equal on the boundary set. TLC enumerates boundary "
                  "identifiers (every alphanumeric edge in each position x last byte 0/1/255, the 20 names, lower-cased names); the real BinRead / "
                  "BinWrite / Display run on them and on ALL 2^32 identifiers: the 62^3 alphanumeric names with a NUL individually (238328 VehRead "
                  "events), everything else compressed by the harness into boxes on which the real classification and the identical write-back "
                  "were verified value by value (VehBox events), plus 20k random values; TLC validates class, mod id, write-back and printed "
                  "name of every event and that no box straddles a boundary of the rule.",
                  replay_filter={"VehRead"})
    chk.exhaustive = True
    chk.extra["identifiers_executed"] = 2 ** 32


def check_C14(chk):
    _values_check(chk, "track", "The harness decodes the whole shaped space [A-Z][A-Z][0-9][0-9]?[A-Z]? (about 2.0M values), other paddings / cases of "
                  "every accepted code and random 6-byte values; for each accepted value TLC checks the generic rules of LfsValues (wire = code "
                  "NUL-padded, re-encode identical, reversed iff R/Y, open iff X/Y, open => no distance, one licence per area, no second wire form) "
                  "and that exactly 154 configurations exist.")
    chk.exhaustive = True


def check_C15(chk):
    _values_check(chk, "time", "Decode side exhaustive: all 256 race-length bytes and all 65536 values of every 16-bit time field; 32-bit time fields at "
                  "boundaries and seeded random values. Encode side: units x scale + every sub-resolution remainder around 0, the field maximum and "
                  "beyond; Laps 0..1100, Hours 0..300 and huge values. TLC validates each event against Units/DurOf/RaceLapsByte/RaceLapsOf: exact "
                  "(rounded down) or refused / practice, never another value.")
    chk.assumptions += ["the scale (1 ms or 10 ms) the Rust field declares is taken as the field's definition"]


def check_C16(chk):
    _values_check(chk, "gv", "TLC enumerates every string up to length 5 (quick) / 6 (thorough) over {two digits, '.', upper, lower, other ASCII, non-ASCII "
                  "numeric} with the result of the three-phase parser GvParse, and a 64-element version set with abstract order keys (the order "
                  "axioms are checked on the model for all triples). The real FromStr / Display / Ord / Eq run on them (with a watchdog against "
                  "non-termination) plus 20k-200k random longer Unicode strings; TLC validates every event.",
                  replay_filter={"GvParse", "GvCmp"}, maxlen=6 if chk.tier == "thorough" else 5)


def check_C17(chk):
    """PTH and SMX files round-trip and their parsers withstand any input."""
    thorough = chk.tier == "thorough"
    chk.rule = ("TLC enumerates file shapes (PTH 0..3 nodes; SMX <= 2 objects x <= 2 points x <= 2 triangles x <= 2 checkpoints; thorough one more of "
                "each) x every cut point, and every hostile count (-1, -2^31, 2^31-1, one more than present) in every count position whose verdict does "
                "not depend on the payload, with the verdict of LfsFiles. The harness materialises each image (seeded payload with NaN / infinity bit "
                "patterns), runs the real parsers under a counting allocator and compares verdict, peak allocation against MaxAlloc, write-back bytes "
                "and re-parse; from_file / from_pathbuf on temporary files (sampled); 20000 mutated / random images for totality and the bound.")
    c = {"MaxNodes": "= 4" if thorough else "= 3", "MaxObjs": "= 2", "MaxElems": "= 3" if thorough else "= 2", "MaxCps": "= 2"}
    cfg = write_cfg("c17_gen", "Spec", c)
    r = tlc("MC_Files", cfg, "c17_gen", workers=1, timeout=1500, coverage=False, env={"JAVA_TOOL_OPTIONS": "-Xss1g"})
    if r.violated:
        raise ToolError(f"MC_Files: {r.violated}")
    nd = os.path.join(WORK, "c17_gen.ndjson")
    n = extract_emitted(r.out_path, nd, tag="FILE")
    chk.add_tlc("c17_gen", r)
    chk.states += n
    chk.transitions += n
    log(f"[tlc] c17_gen: {n} file cases ({r.wall:.0f}s)")
    outp = nd + ".replay.out"
    rc = harness(["files-replay", "--in", nd, "--seed", str(chk.seed)], stdout_path=outp, allow_crash=True)
    if isinstance(rc, int) and rc < 0:
        # the parser took the whole process down (an allocation the input cannot justify aborts): find the case
        last = None
        for line in open(outp, errors="replace"):
            if line.startswith("CASE "):
                last = line[5:].strip()
        cs = json.loads(last) if last else {}
        key = f"files:{cs.get('fmt')}:{(cs.get('hostile') or {}).get('pos', '?')}:{(cs.get('hostile') or {}).get('how', '?')}:process-abort"
        chk.violation(key, f"the parser aborted the process (signal {-rc}) on this input - e.g. an allocation the input cannot justify", {"kind": "file-case", "case": cs, "seed": chk.seed})
        chk.rule += " (run cut short: the parser aborted the process)"
        chk.traces += 1
        chk.case(cs)
        chk.sample(cs)
        chk.exhaustive = False
        return
    summary = None
    with open(outp) as f:
        for line in f:
            if line.startswith("CASE "):
                continue
            v = json.loads(line)
            if "summary" in v:
                summary = v["summary"]
            elif "harness_error" in v:
                raise ToolError(v["harness_error"])
            elif "mismatch" in v:
                cs = v["case"]
                key = f"files:{cs.get('fmt')}:{(cs.get('hostile') or {}).get('pos', 'mutated')}:{(cs.get('hostile') or {}).get('how', '')}:" + norm_key(v["mismatch"])
                chk.violation(key, v["mismatch"], {"kind": "file-case", "case": cs, "seed": v.get("seed", 1)})
    if summary is None:
        raise ToolError("files-replay printed no summary")
    chk.traces += summary["cases"] + summary["mutated"]
    chk.extra["replay"] = summary
    with open(nd) as f:
        for i, line in enumerate(f):
            b = json.loads(line)
            chk.case(b)
            if i in (3, 200, 30000):
                chk.sample(b)
    log(f"[files-replay] {summary}")
    chk.exhaustive = True
    chk.assumptions += ["allocation is bounded by measurement (counting global allocator), not by proof; 'one more than present' counts are only placed where the over-read must hit the end of the file"]


def builder_gate(chk):
    """C09 through the Builder: LfsBuilder carries the gate setting (verify_version, on by default); for every emitted setter
    sequence the connection returned by connect_blocking / connect_async over TCP and UDP is sent an IS_VER of version 8."""
    cfg = write_cfg("c09_builder", "Spec", {"MaxCalls": "= 2", "Emit": "= TRUE"}, invariants=["TypeOK", "HandshakeOk", "EmitInv"])
    r = tlc("LfsBuilder", cfg, "c09_builder", workers=1, timeout=1500, coverage=False, env={"JAVA_TOOL_OPTIONS": "-Xss1g"})
    if r.violated:
        raise ToolError(f"LfsBuilder violates {r.violated}")
    nd = os.path.join(WORK, "c09_builder.ndjson")
    n = extract_emitted(r.out_path, nd, tag="BUILD")
    chk.add_tlc("c09_builder", r)
    outp = nd + ".replay.out"
    harness(["builder-replay", "--in", nd, "--connect-stride", "5" if chk.tier == "quick" else "1", "--gate", "1", "--handshake", "0"], stdout_path=outp, timeout=3000)
    summary = None
    with open(outp) as f:
        for line in f:
            v = json.loads(line)
            if "summary" in v:
                summary = v["summary"]
            elif "mismatch" in v:
                cs = v["case"]
                mine = "; ".join(p for p in v["mismatch"].split("; ") if p.startswith("gate:"))
                if mine:
                    chk.violation("builder-gate:" + norm_key(mine), mine, {"kind": "builder-case", "case": cs})
    if summary is None:
        raise ToolError("builder-replay printed no summary")
    chk.traces += summary["connects"]
    chk.extra["builder_gate"] = summary
    log(f"[builder-gate] {n} setter sequences, {summary}")


def check_C18(chk):
    """The handshake carries exactly the configured connection options."""
    thorough = chk.tier == "thorough"
    chk.rule = ("LfsBuilder: every public setter is an action; TLC explores all setter sequences up to length 6 (state graph, history hidden) checking "
                "that the handshake is one well-formed ISI frame, and emits every sequence of length <= 2 (quick) / 3 (thorough) plus seeded simulated "
                "sequences of length <= 12 with IsiOf and Handshake. The real Builder replays each sequence: isi() is projected and compared (a panic is "
                "a violation), and connect_blocking / connect_async run against a loopback TCP listener / UDP socket: the bytes received must be "
                "exactly Handshake and nothing more.")
    cfg = write_cfg("c18_mc", "Spec", {"MaxCalls": "= 7" if thorough else "= 6", "Emit": "= FALSE"}, invariants=["TypeOK", "HandshakeOk"], view="view")
    r = tlc("LfsBuilder", cfg, "c18_mc", workers=8, timeout=1500)
    if r.violated:
        raise ToolError(f"LfsBuilder violates {r.violated}")
    chk.add_tlc("c18_mc", r, needs_actions=("SetFlag", "UseUdp", "SetMode"))
    log(f"[tlc] c18_mc: {r.distinct} distinct states ({r.wall:.0f}s)")
    total = 0
    for name, consts, sim in (("c18_emit", {"MaxCalls": "= 3" if thorough else "= 2", "Emit": "= TRUE"}, None),
                              ("c18_sim", {"MaxCalls": "= 12", "Emit": "= TRUE"}, f"num={4000 if thorough else 300}")):
        cfg = write_cfg(name, "Spec", consts, invariants=["TypeOK", "HandshakeOk", "EmitInv"])
        r = tlc("LfsBuilder", cfg, name, workers=1, timeout=1500, coverage=False, simulate=sim, seed=chk.seed, env={"JAVA_TOOL_OPTIONS": "-Xss1g"})
        if r.violated:
            raise ToolError(f"LfsBuilder violates {r.violated}")
        nd = os.path.join(WORK, name + ".ndjson")
        n = extract_emitted(r.out_path, nd, tag="BUILD")
        chk.add_tlc(name, r)
        log(f"[tlc] {name}: {n} behaviours ({r.wall:.0f}s)")
        outp = nd + ".replay.out"
        stride = 12 if (thorough and name == "c18_emit") else (1 if name == "c18_emit" else 3)
        harness(["builder-replay", "--in", nd, "--connect-stride", str(4 if (name == "c18_emit" and not thorough) else stride)], stdout_path=outp, timeout=3000)
        summary = None
        with open(outp) as f:
            for line in f:
                v = json.loads(line)
                if "summary" in v:
                    summary = v["summary"]
                elif "mismatch" in v:
                    cs = v["case"]
                    # the version gate of the returned connection is C09's business (see builder_gate)
                    mine = "; ".join(p for p in v["mismatch"].split("; ") if not p.startswith("gate:"))
                    if not mine:
                        continue
                    sig = f"{cs['proto']}:local={cs['local']}:" + norm_key(mine)
                    chk.violation("builder:" + sig, mine, {"kind": "builder-case", "case": cs})
        if summary is None:
            raise ToolError("builder-replay printed no summary")
        chk.traces += summary["behaviours"]
        chk.extra.setdefault("replay", []).append(summary)
        with open(nd) as f:
            for i, line in enumerate(f):
                b = json.loads(line)
                chk.case(b)
                if i in (1, 500):
                    chk.sample({"calls": b["calls"], "isi": b["isi"], "proto": b["proto"], "mode": b["mode"]})
        total += n
        log(f"[builder-replay] {summary}")
    chk.assumptions += ["the relay transport (DNS + Internet) is not exercised; the local UDP port is chosen by the harness and substituted for LocalPort"]


# ----------------------------------------------------------------------------- text (LfsText)
def _cls(c):
    if c == 94: return "^"
    if c == 56: return "8"
    if 48 <= c <= 57: return "d"
    if c in (76, 71, 67, 69, 84, 66, 74, 83, 75, 72): return "M"
    if c in (118, 97, 99, 100, 115, 113, 116, 108, 114, 104): return "e"
    if c in (124, 42, 58, 92, 47, 63, 34, 60, 62, 35): return "r"
    if c == 0: return "0"
    if c < 128: return "a"
    if c < 256: return "l"
    return "u"


def _sig(seq, limit=24):
    out = []
    for c in seq or []:
        x = _cls(c)
        if not out or out[-1] != x or x in "^M8":
            out.append(x)
    return "".join(out)[:limit]


def text_event_key(ev):
    t = ev.get("ev")
    if t == "Field":
        le, n = len(ev.get("enc", [])), ev.get("n", 0)
        rel = "lt" if le < n - 1 else ("n-1" if le == n - 1 else ("eq" if le == n else "gt"))
        return f"Field:{ev.get('kind')}.{ev.get('name')}:{ev.get('rule')}:{ev.get('flavour')}:len{rel}:mod{le % 4}"
    if t == "FieldDec":
        return f"FieldDec:{ev.get('kind')}.{ev.get('name')}"
    if t == "Frame":
        return f"Frame:{ev.get('kind')}.{ev.get('name')}:{ev.get('mode')}:{ev.get('flavour')}:{ev.get('res')}:mod{ev.get('enclen', 0) % 4}"
    if t == "MsoDec":
        return f"MsoDec:name={_sig(ev.get('name'))}:text={_sig(ev.get('whole', [])[len(ev.get('name', [])):])}:{ev.get('res')}:{ev.get('re_res')}"
    if t == "CpDec":
        b = ev.get("in", [])
        return "CpDec:" + "".join("^" if x == 94 else ("M" if x in (76, 71, 67, 69, 84, 66, 74, 83, 75, 72) else ("8" if x == 56 else ("h" if x >= 128 else "a"))) for x in b)[:16] + (":" + chr(b[1]) if len(b) > 1 and b[0] == 94 else "")
    if t == "Panic":
        return f"Panic:{ev.get('fn')}:{_sig(ev.get('in') if isinstance(ev.get('in'), list) and all(isinstance(x, int) for x in ev.get('in')) else [])}"
    return f"{t}:{_sig(ev.get('in'))}"


def text_trace_validate(chk, name, trace_path, what, only=None, max_rounds=12, spec_dir=None):
    """TLC validates the events with Trace_Text; on a rejection the event is recorded, every event with the same
    class signature is set aside and validation continues, so that independent defects are all reported."""
    lines = [l for l in open(trace_path) if l.strip()]
    if only:
        lines = [l for l in lines if json.loads(l).get("ev") in only]
    total = len(lines)
    chk.evaluations += total
    rejected = {}
    for rnd in range(max_rounds):
        tp = trace_path + f".round"
        open(tp, "w").write("".join(lines))
        r = tlc("Trace_Text", os.path.join(spec_dir or SPEC, "Trace_Text.cfg"), f"{name}_r{rnd}", workers=1, env={"TRACE": tp}, timeout=1800,
                trace_mode=True, spec_dir=spec_dir)
        chk.add_tlc(f"{name}_r{rnd}", r)
        if r.ok:
            break
        idx, ev = r.rejected if r.rejected else (0, {})
        if not ev:
            raise ToolError(f"Trace_Text rejected without naming an event (see {r.out_path})")
        key = text_event_key(ev)
        rejected[key] = ev
        chk.violation("text:" + key, f"{what}: not explained by the specification: {json.dumps(ev)[:500]}", {"kind": "text-trace", "events": [ev]})
        keep = []
        for l in lines:
            if text_event_key(json.loads(l)) != key:
                keep.append(l)
        if len(keep) == len(lines):
            keep = lines[:idx - 1] + lines[idx:]
        lines = keep
    else:
        log(f"[trace] {name}: stopped after {max_rounds} distinct rejection classes (there may be more)")
    chk.traces += len(lines)
    log(f"[trace] {name}: {total} events, {len(rejected)} distinct rejection classes, {len(lines)} accepted")
    return rejected


def text_vectors(chk, name, maxlen):
    cfg = write_cfg(name, "Spec", {"MaxLen": f"= {maxlen}"})
    r = tlc("MC_Text", cfg, name, workers=1, timeout=2400, coverage=False, env={"JAVA_TOOL_OPTIONS": "-Xss1g"})
    if r.violated:
        raise ToolError(f"MC_Text: {r.violated}")
    nd = os.path.join(WORK, name + ".ndjson")
    n = extract_emitted(r.out_path, nd, tag="TXT")
    chk.add_tlc(name, r)
    chk.states += n
    chk.transitions += n
    log(f"[tlc] {name}: {n} enumerated inputs ({r.wall:.0f}s)")
    return nd, n


def char_pool():
    import re
    s = open(os.path.join(SPEC, "LfsCodepages.tla")).read()
    cps = set()
    sb = s[s.index("SBHigh =="):s.index("DBPairs ==")]
    for m in re.finditer(r"-?\d+", sb):
        v = int(m.group())
        if v >= 160:
            cps.add(v)
    db = s[s.index("DBPairs =="):s.index("LeadBytes ==")]
    for m in re.finditer(r"<<(\d+), (\d+), (\d+)>>", db):
        cps.add(int(m.group(3)))
    p = os.path.join(WORK, "chars.txt")
    open(p, "w").write(",".join(map(str, sorted(cps))))
    return p


def _text_check(chk, events, rule, maxlen, fields=False):
    chk.rule = rule
    thorough = chk.tier == "thorough"
    pid = chk.pid.lower()
    if fields:
        tp = os.path.join(WORK, f"{pid}_fields.ndjson")
        out = harness(["text-fields", "--out", tp, "--tier", chk.tier])
        chk.extra["driver"] = json.loads(out.strip().splitlines()[-1])
        _sample_events(chk, tp, picks=(0, 300, 1500))
        text_trace_validate(chk, f"{pid}_fields", tp, "text field", only=events)
        return
    nd, n = text_vectors(chk, f"{pid}_gen", maxlen)
    tp = os.path.join(WORK, f"{pid}_replay.ndjson")
    harness(["text-replay", "--in", nd, "--out", tp])
    _sample_events(chk, tp, picks=(10, 2000, 9000))
    text_trace_validate(chk, f"{pid}_replay", tp, "input enumerated by TLC", only=events)
    tp = os.path.join(WORK, f"{pid}_trace.ndjson")
    out = harness(["text-trace", "--out", tp, "--seed", str(chk.seed), "--count", "20000" if thorough else "2500", "--chars", char_pool()])
    chk.extra["driver"] = json.loads(out.strip().splitlines()[-1])
    text_trace_validate(chk, f"{pid}_trace", tp, "random text", only=events)


def check_C10(chk):
    _text_check(chk, {"CpEnc", "CpDec", "Panic"},
                "LfsText.CpDecode is LFS's reading rule over the generated Windows code page tables (complete single-byte pages, sampled "
                "double-byte pages restricted to pairs on which sibling tables agree). TLC enumerates byte vectors (every high byte after every "
                "single-byte marker, sampled pairs after their marker incl. trail byte 0x5E followed by marker letters, marker switches in all "
                "orders, ^^ / ^8 / BOM-looking prefixes) and all strings up to the bound over a 15-class alphabet; to_lossy_string must equal "
                "CpDecode on defined bytes and to_lossy_bytes is accepted by postcondition (CpDecode(bytes) = text with '?' for characters in no "
                "page; ASCII byte for byte); random text and bytes for totality.", maxlen=5 if chk.tier == "thorough" else 4)
    # the complete double-byte tables (every pair on which the family's independent tables agree): generated at check time,
    # LfsText / Trace_Text are evaluated against them in a scratch copy of the specification directory
    import shutil, subprocess
    full = os.path.join(WORK, "spec_full")
    os.makedirs(full, exist_ok=True)
    with open(os.path.join(full, "LfsCodepages.tla"), "w") as f:
        p = subprocess.run(["python3", os.path.join(VERIF, "bin", "gen_codepages.py"), "--full", full], stdout=f, stderr=subprocess.PIPE, text=True)
    if p.returncode != 0:
        raise ToolError("gen_codepages.py --full failed: " + p.stderr[-500:])
    for m in ("LfsText.tla", "Trace_Text.tla", "Trace_Text.cfg"):
        shutil.copyfile(os.path.join(SPEC, m), os.path.join(full, m))
    tp = os.path.join(WORK, "c10_dbcs.ndjson")
    out = harness(["text-dbcs", "--table", os.path.join(full, "dbcs_full.json"), "--out", tp, "--chars", char_pool()])
    chk.extra["dbcs_full"] = json.loads(out.strip().splitlines()[-1])
    text_trace_validate(chk, "c10_dbcs", tp, "complete double-byte tables", only={"CpEnc", "CpDec", "Panic"}, spec_dir=full)
    chk.assumptions += ["'LFS's tables' = Microsoft's tables as shipped in python's cp125x/cp932/cp936/cp949/cp950 codecs; a double-byte pair is "
                        "constrained only if the family's independent tables (shift_jis; gbk, gb18030; euc_kr; big5, big5hkscs) agree on it"]


def check_C11(chk):
    _text_check(chk, {"Field", "FieldDec", "Panic"},
                "For every text-bearing field of every kind (widths 6..240) texts whose encoded length runs over 0..N+2 (thorough 0..2N) in "
                "ASCII / Latin-1 / Cyrillic (marker-introducing) / double-byte / mixed flavours, all residues mod 4: the field's byte range in the "
                "encoded frame must satisfy FixedField / FixedFieldNul (MST MSX MSL) / VarField / VarFieldNul (MTC) of LfsText; frames with an "
                "embedded NUL must decode to the text before it.", maxlen=0, fields=True)


def check_C12(chk):
    _text_check(chk, {"Esc", "Unesc", "Strip", "Colour", "E2E", "Panic"},
                "TLC enumerates all strings up to length 4 (quick) / 5 (thorough) over a 15-class alphabet (caret, digits incl. 8, escape letter, "
                "reserved characters, code page letters, ASCII, Latin-1, Cyrillic, double-byte with 0x5E trail, in no code page) with Esc / Unesc / "
                "Strip; the laws (Unesc o Esc = id, no raw reserved character, Strip idempotent) are checked on the model; the real escape / "
                "unescape / strip must agree and the end-to-end path unescape(decode(encode(escape(s)))) must give back s; random longer strings.",
                maxlen=5 if chk.tier == "thorough" else 4)


def replay_case(case):
    if case["kind"] == "text-trace":
        print("text event stored in the replay file; the property's check re-records it from the same input: re-run bin/check")
        os.makedirs(WORK, exist_ok=True)
        tp = os.path.join(WORK, "replay_case_text.ndjson")
        open(tp, "w").write("".join(json.dumps(e) + "\n" for e in case["events"]))
        r = tlc("Trace_Text", os.path.join(SPEC, "Trace_Text.cfg"), "replay_case", workers=1, env={"TRACE": tp}, trace_mode=True)
        print("accepted" if r.ok else f"rejected: {r.rejected}")
        return 0 if r.ok else 1
    if case["kind"] == "builder-case":
        os.makedirs(WORK, exist_ok=True)
        nd = os.path.join(WORK, "replay_case_builder.ndjson")
        open(nd, "w").write(json.dumps(case["case"]) + "\n")
        out = harness(["builder-replay", "--in", nd])
        bad = [json.loads(l) for l in out.splitlines() if '"mismatch"' in l]
        for b in bad:
            print("MISMATCH:", b["mismatch"])
        return 1 if bad else 0
    if case["kind"] == "file-case":
        os.makedirs(WORK, exist_ok=True)
        nd = os.path.join(WORK, "replay_case_file.ndjson")
        if "image" in case["case"]:
            print("mutated image stored in the replay file; re-run bin/check C17 with VERIF_SEED=%s" % case.get("seed", 1))
            return 1
        open(nd, "w").write(json.dumps(case["case"]) + "\n")
        out = harness(["files-replay", "--in", nd, "--seed", str(case.get("seed", 1))])
        bad = [l for l in out.splitlines() if '"mismatch"' in l and '"case":{"fmt"' in l and '"image"' not in l]
        for b in bad:
            print("MISMATCH:", json.loads(b)["mismatch"])
        return 1 if bad else 0
    if case["kind"] == "values-trace":
        os.makedirs(WORK, exist_ok=True)
        ip = os.path.join(WORK, "replay_case_values_in.ndjson")
        tp = os.path.join(WORK, "replay_case_values.ndjson")
        open(ip, "w").write("".join(json.dumps(e) + "\n" for e in case["events"]))
        harness(["values-rerun", "--in", ip, "--out", tp])
        r = tlc("Trace_Values", os.path.join(SPEC, "Trace_Values.cfg"), "replay_case", workers=1, env={"TRACE": tp}, trace_mode=True)
        print("accepted" if r.ok else f"rejected: {r.rejected}")
        return 0 if r.ok else 1
    if case["kind"] == "wire-trace":
        os.makedirs(WORK, exist_ok=True)
        tp = os.path.join(WORK, "replay_case_wire.ndjson")
        evs = []
        for e in case["events"]:
            if e.get("ev") == "Dec" and "buf" in e:
                # re-run the real decoder on the stored buffer
                bp = os.path.join(WORK, "replay_case_buf.json")
                json.dump({"mode": e["mode"], "buf": e["buf"]}, open(bp, "w"))
                out = harness(["wire-dec", "--in", bp])
                evs.append(json.loads(out.strip().splitlines()[-1]))
            else:
                evs.append(e)
        open(tp, "w").write("".join(json.dumps(e) + "\n" for e in evs))
        r = tlc("Trace_Wire", os.path.join(SPEC, "Trace_Wire.cfg"), "replay_case", workers=1, env={"TRACE": tp}, trace_mode=True)
        bad = (not r.ok) or any(e.get("reenc") == "panic" for e in evs)
        print("rejected" if bad else "accepted", evs[0] if evs else "")
        return 1 if bad else 0
    if case["kind"] == "wire-vector":
        os.makedirs(WORK, exist_ok=True)
        nd = os.path.join(WORK, "replay_case_vec.ndjson")
        open(nd, "w").write(json.dumps(case["vector"]) + "\n")
        out = harness(["wire-replay", "--in", nd])
        bad = 0
        for l in out.splitlines():
            v = json.loads(l)
            if "finding" in v and (not case.get("stage") or v["finding"]["stage"] == case["stage"]):
                print("FINDING:", v["finding"]["stage"], v["finding"]["detail"][:300])
                bad += 1
        return 1 if bad else 0
    return 2
