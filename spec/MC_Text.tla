----------------------------- MODULE MC_Text -----------------------------
(* Generators over LfsText: every string up to MaxLen over a class-representative alphabet with Esc / Unesc / Strip  *)
(* (C12) and byte vectors with CpDecode (C10); the laws of the model itself are checked on all of them.             *)
EXTENDS LfsText, Json, IOUtils, SequencesExt
CONSTANTS MaxLen

\* caret, two digits (8 is special), an escape letter, two reserved characters, two code page letters, plain ASCII,
\* Latin-1 high, Cyrillic, a double-byte character whose Shift-JIS trail byte is 0x5E, a single-byte half-width katakana of
\* page 932 (whose byte lies in the lead-byte range of the other double-byte pages), a character in no code page
\* (178 = superscript two: a non-ASCII character of the Unicode numeric categories, which is not a colour digit)
Alphabet == <<94, 49, 56, 118, 124, 42, 76, 67, 120, 233, 178, 1096, 65295, 65393, 128512>>
RECURSIVE Strings(_)
Strings(n) == IF n = 0 THEN {<<>>} ELSE LET prev == Strings(n - 1) IN
              prev \cup {Append(s, Alphabet[i]) : s \in {t \in prev : Len(t) = n - 1}, i \in 1..Len(Alphabet)}
Encodable(s) == \A i \in 1..Len(s) : s[i] \in Repertoire

MarkerLetters == <<76, 71, 67, 69, 84, 66, 74, 83, 75, 72>>
M(l) == <<94, l>>
\* one representative byte sequence of each page: a defined character
RepOf(l) == LET p == Page[l] IN IF IsDB(p) THEN <<DBPairs[p][1][1], DBPairs[p][1][2]>> ELSE <<233>>
DecVectors ==
  \* every high byte after every single-byte marker, and bare (Latin-1)
  {M(l) \o <<b>> : l \in {76, 71, 67, 69, 84, 66}, b \in 128..255} \cup {<<b>> : b \in 128..255}
  \* every sampled pair after its marker, followed by an ASCII letter; and followed by each marker letter (trail bytes that look like carets)
  \cup UNION {{M(l) \o <<DBPairs[Page[l]][i][1], DBPairs[Page[l]][i][2], 65>> : i \in 1..Len(DBPairs[Page[l]])} : l \in {74, 83, 75, 72}}
  \cup UNION {{M(l) \o <<DBPairs[Page[l]][i][1], DBPairs[Page[l]][i][2], 76, 65>> : i \in {j \in 1..Len(DBPairs[Page[l]]) : DBPairs[Page[l]][j][2] = 94}} : l \in {74, 83, 75, 72}}
  \* sequences of three marker switches in all orders, one character each, then ^8 back to Latin-1
  \cup {M(a) \o RepOf(a) \o M(b) \o RepOf(b) \o M(c) \o RepOf(c) \o <<94, 56, 233>> : a \in {76, 67, 74, 72}, b \in {71, 83, 69}, c \in {84, 66, 75}}
  \cup {M(a) \o RepOf(a) \o M(b) \o RepOf(b) : a \in Range(MarkerLetters), b \in Range(MarkerLetters)}
  \* escaped carets and other caret sequences are not markers
  \cup {<<94, 94, l, 233>> : l \in Range(MarkerLetters)} \cup {<<94, 67, 232, 94, 94, 76, 232>>, <<94, 118, 233>>, <<94>>, <<233, 94>>, <<94, 94>>, <<94, 56>>, <<94, 67, 232, 94, 56, 232>>}
  \* a caret followed by every byte value, alone and followed by a Latin-1 high byte
  \cup {<<94, b>> : b \in 0..255} \cup {<<94, b, 233>> : b \in 1..255}
  \* a lone (non-marker) caret directly before a pair whose trail byte looks like a caret, followed by a code page letter
  \cup UNION {{M(l) \o <<94, DBPairs[Page[l]][i][1], DBPairs[Page[l]][i][2], 76, 65>> : i \in {j \in 1..Len(DBPairs[Page[l]]) : DBPairs[Page[l]][j][2] = 94}} : l \in {74, 83, 75, 72}}
  \cup UNION {{M(l) \o <<94, 49, DBPairs[Page[l]][i][1], DBPairs[Page[l]][i][2], 67, 65>> : i \in {j \in 1..Len(DBPairs[Page[l]]) : DBPairs[Page[l]][j][2] = 94}} : l \in {74, 83, 75, 72}}
  \* byte patterns that look like byte-order marks: at the start and at the start of a segment
  \cup {<<255, 254, 65>>, <<254, 255, 65>>, <<239, 187, 191, 65>>, <<94, 67, 255, 254, 65>>, <<94, 69, 239, 187, 191, 65>>, <<94, 76, 254, 255, 65>>}

\* caret sequences LFS keeps in the text (^^ and ^digit, in particular ^^8 which is NOT the "back to Latin-1" code) between
\* characters of different code pages: five and six symbols, beyond the bound of the exhaustive enumeration
NonAscii == {233, 1096, 65295, 65393}
CaretVectors == {<<a, 94, 94, d, b>> : a \in NonAscii, b \in NonAscii, d \in {56, 49}}
                \cup {<<a, 94, d, b>> : a \in NonAscii, b \in NonAscii, d \in {56, 49}}
                \cup {<<a, 94, 94, b>> : a \in NonAscii, b \in NonAscii}
                \cup {<<a, 94, 94, 94, 56, b>> : a \in NonAscii, b \in NonAscii}

VARIABLE phase
Init == phase = 1
Next ==
  \/ /\ phase = 1 /\ phase' = 2
     /\ \A s \in Strings(MaxLen) \cup CaretVectors :
          PrintT(<<"TXT", ToJson([t |-> "esc", in |-> s, esc |-> Esc(s), unesc |-> Unesc(s), strip |-> Strip(s), encodable |-> Encodable(s)])>>)
  \/ /\ phase = 2 /\ phase' = 3
     /\ \A b \in DecVectors : PrintT(<<"TXT", ToJson([t |-> "dec", bytes |-> b, text |-> CpDecode(b)])>>)
Spec == Init /\ [][Next]_phase

\* laws of the model (C12 on the specification itself), all strings up to the bound
Laws == \A s \in Strings(IF MaxLen > 4 THEN 4 ELSE MaxLen) :
          /\ Unesc(Esc(s)) = s
          /\ NoRawReserved(Esc(s)) /\ WellEscaped(Esc(s))
          /\ Strip(Strip(s)) = Strip(s)
          \* colouring is undone by stripping, and a coloured escaped text is still wire safe
          /\ \A c \in DOMAIN ColourCode : Strip(Colourify(c, s)) = Strip(s) /\ NoRawReserved(Colourify(c, Esc(s)))
          /\ Cardinality({i \in 1..Len(Strip(Esc(s))) : Strip(Esc(s))[i] = 94}) <= Cardinality({i \in 1..Len(Esc(s)) : Esc(s)[i] = 94})
          \* an escaped ASCII string read back by LFS and unescaped is the original
          /\ ((\A i \in 1..Len(s) : s[i] < 128) => Unesc(CpDecode(Esc(s))) = s)
ASSUME Laws
=============================================================================
