SPECIFICATION EmitSpec
CONSTANTS
  MaxFrames = 2
  Lens <- L48
  Classes <- ClsSeg
  Cap = 12
  MaxDgram = 8
  Transports <- TStream
  Flavors <- BothFlavors
  Verifies <- GateOn
  WritePolicy = "write_all"
  UdpPolicy = "buffered"
  PongPolicy = "cancel_safe"
  MaxErr = 1
  MaxPending = 0
  MaxCancel = 0
  MaxTimeout = 0
  MaxWrites = 0
  WLens = {}
  FrameOK <- FrameReal
  KeepHist = TRUE
INVARIANTS InOrder NoLoss FramingInv PongsOk EmitInv
ACTION_CONSTRAINT StopWhenFinished
CHECK_DEADLOCK FALSE
