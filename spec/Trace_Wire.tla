---------------------------- MODULE Trace_Wire ----------------------------
(* Validation of codec events recorded from the real insim::net::Codec:        *)
(*   Enc  - a packet (abstract record) was encoded: the result must be what     *)
(*          SpecEncode / EncodeOutcome say                                       *)
(*   Dec  - a byte buffer was handed to decode: the outcome and the effect on    *)
(*          the buffer must be allowed by DecodeAllowed (C04)                    *)
(*   Hdr  - header sweep: for one (mode, size byte, buffer length) the harness   *)
(*          tried all 256 type bytes and reports the set of outcomes it saw      *)
EXTENDS LfsWire, Json, IOUtils, TLCExt

Rec == ndJsonDeserialize(IOEnv.TRACE)
VARIABLE l
E == Rec[l]
IsEvent(e) == l <= Len(Rec) /\ Rec[l].ev = e /\ l' = l + 1

Announced(mode, sb) == IF mode = "C" THEN sb * 4 ELSE sb

\* C04: what decode may do with a buffer whose first byte is sb and whose length is len
\*   "none"      : need more data, buffer untouched
\*   "frame_err" : impossible announced length, buffer untouched
\*   "pkt"/"err" : exactly the announced n >= 4 bytes removed
DecodeAllowed(mode, sb, len, res, after) ==
  LET n == Announced(mode, sb) IN
  IF len < 4 THEN res = "none" /\ after = len
  ELSE IF n < 4 \/ n > MaxLenOf(mode) THEN res = "frame_err" /\ after = len
  ELSE IF len < n THEN res = "none" /\ after = len
  ELSE res \in {"pkt", "err"} /\ after = len - n

TEnc == /\ IsEvent("Enc")
        /\ LET o == EncodeOutcome(E.kind, E.rec, E.mode) IN
           CASE E.res = "ok" -> o # "refused" /\ E.bytes = SpecEncode(E.kind, E.rec, E.mode)
             [] OTHER -> o # "ok"                 \* an error or a panic: only where the specification refuses or may refuse
        \* dense time sweeps also report what the decoder reads back from the frame
        /\ ("durkey" \in DOMAIN E /\ E.res = "ok") => E.back_dur = DurReread(E.kind, E.rec, E.durkey)
TDec == /\ IsEvent("Dec")
        /\ DecodeAllowed(E.mode, IF E.len > 0 THEN E.sb ELSE 0, E.len, E.res, E.after)
        /\ E.rest_ok                                 \* the bytes that remain are the untouched suffix
        /\ E.ctx_ok                                  \* the outcome does not depend on what follows the frame in the buffer
THdr == /\ IsEvent("Hdr")
        /\ \A i \in 1..Len(E.seen) : DecodeAllowed(E.mode, E.sb, E.len, E.seen[i].res, E.seen[i].after)
TNext == TEnc \/ TDec \/ THdr
TSpec == l = 1 /\ [][TNext]_l

Accepted ==
  LET reached == TLCGet("stats").diameter IN
  IF reached = Len(Rec) + 1 THEN TRUE
  ELSE PrintT(<<"REJECTED", reached, ToJson(Rec[reached])>>) /\ FALSE
=============================================================================
