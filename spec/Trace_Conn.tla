---------------------------- MODULE Trace_Conn ----------------------------
(* Trace validation: every event recorded from a real insim.rs connection     *)
(* (scripted transport + read()/write() results) must be explained by an      *)
(* action of LfsConn.  One trace action per event kind = IsEvent /\ bind the   *)
(* logged fields /\ the LfsConn action.  TryDecode is not observable without   *)
(* a hook: it is a silent step.  Acceptance: the highest event index reached   *)
(* (kept in TLC register 1) must be the end of the trace.                      *)
EXTENDS LfsConn, Json, IOUtils, TLCExt

Rec == ndJsonDeserialize(IOEnv.TRACE)

VARIABLES l,       \* next event to explain
          rcount,  \* results of the model already matched with Result events
          ucount   \* datagrams / messages written by the model already matched with Unit events
tvars == <<vars, l, rcount, ucount>>

FrameAny(n, c) == TRUE
Many == 1000000
NoLens == {}
AllCls == AllClasses
TAll == AllTransports
FBoth == {"blocking", "tokio"}
VBoth == BOOLEAN

IsEvent(e) == l <= Len(Rec) /\ Rec[l].ev = e /\ l' = l + 1
E == Rec[l]

TInit == /\ Init /\ cfg = [transport |-> "stream", flavor |-> "blocking", verify |-> FALSE]
         /\ l = 1 /\ rcount = 0 /\ ucount = 0

\* a new session starts: everything back to the initial state, with the recorded configuration
TReset ==
  /\ IsEvent("Reset")
  /\ cfg' = [transport |-> E.transport, flavor |-> E.flavor, verify |-> E.verify]
  /\ sent' = <<>> /\ wsq' = <<>> /\ packed' = 0 /\ net' = <<>> /\ eof' = FALSE /\ abuf' = <<>>
  /\ rbuf' = <<>> /\ roff' = 0 /\ pc' = "idle" /\ pending' = 0 /\ pongleft' = 0
  /\ wcur' = 0 /\ wleft' = 0 /\ wlen' = 0 /\ nwrites' = 0 /\ wafter' = FALSE
  /\ out' = <<>> /\ units' = <<>> /\ held' = <<>> /\ blocked' = FALSE /\ nblock' = 0 /\ results' = <<>>
  /\ nerr' = 0 /\ npend' = 0 /\ ncancel' = 0 /\ ntimeout' = 0
  /\ hist' = <<>> /\ rcount' = 0 /\ ucount' = 0

TPeerSend  == IsEvent("PeerSend") /\ PeerSend(E.n, E.s) /\ UNCHANGED <<rcount, ucount>>
TPeerTrunc == IsEvent("PeerTrunc") /\ PeerTruncated(E.n, E.k) /\ UNCHANGED <<rcount, ucount>>
TPeerClose == IsEvent("PeerClose") /\ PeerClose /\ UNCHANGED <<rcount, ucount>>
\* read() may only be called again when the previous call's result has been reported
TReadCall  == IsEvent("ReadCall") /\ rcount = Len(results) /\ ucount = Len(units) /\ ReadCall /\ UNCHANGED <<rcount, ucount>>

\* one call of the transport's read with `offered` bytes of room that returned `got`
TTRead ==
  /\ IsEvent("TRead") /\ UNCHANGED <<rcount, ucount>>
  /\ CASE E.kind = "data"    -> FillStreamObs(E.got, E.offered)
       [] E.kind = "eof"     -> FillEof /\ E.offered >= 1
       [] E.kind = "err"     -> FillErr
       [] E.kind = "pending" -> FillPending
       [] OTHER -> FALSE

\* one call of the transport's write: the code must offer exactly the unwritten rest of the
\* frame it is sending (the reply when pc = "pong", the user's frame when pc = "write")
TTWrite ==
  /\ IsEvent("TWrite") /\ UNCHANGED <<rcount, ucount>>
  /\ CASE E.kind = "ok" /\ pc = "pong"  -> E.offered = pongleft /\ E.bytes_ok /\ PongWrite(E.accepted)
       [] E.kind = "ok" /\ pc = "write" -> E.offered = wleft /\ E.bytes_ok /\ WriteAccept(E.accepted)
       [] E.kind = "pending" /\ pc = "pong"  -> PongPending
       [] E.kind = "pending" /\ pc = "write" -> WritePending
       [] OTHER -> FALSE

\* what read() returned must be the model's next unreported result
TResult ==
  /\ IsEvent("Result")
  /\ rcount < Len(results)
  /\ LET r == results[rcount + 1] IN
       /\ r.t = E.t
       /\ (E.t = "pkt" => r.id = E.id)
  /\ rcount' = rcount + 1 /\ UNCHANGED <<vars, ucount>>

\* real sockets ---------------------------------------------------------------
TPeerDgram == /\ IsEvent("PeerDgram") /\ UNCHANGED <<rcount, ucount>>
              /\ PeerDgram([i \in 1..Len(E.frames) |-> [len |-> E.frames[i].n, cls |-> E.frames[i].s]])
TPeerWsMsg == /\ IsEvent("PeerWsMsg") /\ UNCHANGED <<rcount, ucount>>
              /\ IF E.kind = "binary" THEN PeerWsPack(E.n) ELSE PeerWsOther(E.kind)
\* the peer socket received one datagram / binary message: it must be the next unit the model wrote, whole
TUnit == /\ IsEvent("Unit") /\ E.ok
         /\ ucount < Len(units) /\ units[ucount + 1] = E.n
         /\ ucount' = ucount + 1 /\ UNCHANGED <<vars, rcount>>

TCancel    == IsEvent("Cancel") /\ Cancel /\ UNCHANGED <<rcount, ucount>>
TWriteCall == IsEvent("WriteCall") /\ rcount = Len(results) /\ WriteCall(E.n) /\ UNCHANGED <<rcount, ucount>>
TWriteDone == IsEvent("WriteDone") /\ pc = "idle" /\ E.res = "ok" /\ wleft = 0 /\ UNCHANGED <<vars, rcount, ucount>>
\* the transport refused the frame (LfsConn.WriteFail; on a datagram transport nothing of it was accepted): the connection is finished
\* and no unit may be observed for it - the next event is a Reset
TWriteErr == /\ IsEvent("WriteDone") /\ E.res = "err" /\ pc = "write" /\ (Atomic => wleft = wlen)
             /\ pc' = "dead"
             /\ UNCHANGED <<cfg, sent, wsq, packed, net, eof, abuf, rbuf, roff, pending, pongleft, wcur, wleft, wlen, nwrites, wafter,
                            out, units, held, blocked, nblock, results, nerr, npend, ncancel, ntimeout, hist, rcount, ucount>>

\* a frame the harness decided not to send (the stand-alone codec could not classify it)
TSkipped == IsEvent("Skipped") /\ UNCHANGED <<vars, rcount, ucount>>

\* not observable: the decode attempt between two transport reads
TSilent == /\ \/ (pc = "loop" /\ TryDecode)
              \/ PongFinish
              \* adaptors on real sockets: their internal reads and the atomic writes are not observable
              \/ (~IsStream /\ (FillUdpBuffered \/ FillWs \/ FillEof))
              \* ... nor is the socket's read time-out (an I/O error to the connection); the Result event that follows decides
              \/ (IsUdp /\ l <= Len(Rec) /\ Rec[l].ev = "Result" /\ Rec[l].t = "io_err" /\ FillErr)
              \/ (Atomic /\ pongleft > 0 /\ PongWrite(pongleft))
              \/ (Atomic /\ wleft > 0 /\ WriteAccept(wleft))
           /\ UNCHANGED <<l, rcount, ucount>>

TNext == \/ TReset \/ TPeerSend \/ TPeerTrunc \/ TPeerClose \/ TReadCall \/ TTRead \/ TTWrite \/ TResult
         \/ TPeerDgram \/ TPeerWsMsg \/ TUnit \/ TCancel \/ TWriteCall \/ TWriteDone \/ TWriteErr \/ TSkipped \/ TSilent
TSpec == TInit /\ [][TNext]_tvars

\* The invariants of LfsConn evaluated along the recorded execution.  Every accepted prefix is a behaviour of the specification
\* (with observed parameters), so they can only fail where the bounded exhaustive runs did not reach (Cap = 6120, frames up
\* to 1020 bytes, hundreds of frames).  INV_EVERY = k > 1 (thorough tier, large traces) evaluates them at every k-th event,
\* at the end of every session and at the end of the trace; the default is every state.
InvEvery == IF "INV_EVERY" \in DOMAIN IOEnv THEN atoi(IOEnv.INV_EVERY) ELSE 1
Sampled == l % InvEvery = 0 \/ l > Len(Rec) \/ Rec[l].ev = "Reset"
T_InOrder == Sampled => InOrder
T_FramingInv == Sampled => FramingInv
T_BufferInv == Sampled => BufferInv
T_PongsOk == Sampled => PongsOk
T_WritesOk == Sampled => WritesOk
T_OutContig == Sampled => OutContig
T_DiscOk == Sampled => DiscOk

\* progress register (needs -workers 1)
ASSUME TLCSet(1, 0)
Progress == TLCSet(1, IF l > TLCGet(1) THEN l ELSE TLCGet(1))

Accepted ==
  LET reached == TLCGet(1) IN
  IF reached = Len(Rec) + 1 THEN TRUE
  ELSE /\ PrintT(<<"REJECTED", reached, ToJson(Rec[reached])>>)
       /\ FALSE
=============================================================================
