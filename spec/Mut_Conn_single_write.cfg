SPECIFICATION Spec
CONSTANTS
  MaxFrames = 2
  Lens <- L48
  Classes <- ClsUdp
  Cap = 12
  MaxDgram = 8
  Transports <- TStream
  Flavors <- OnlyBlocking
  Verifies <- GateOn
  WritePolicy = "single_write"
  UdpPolicy = "buffered"
  PongPolicy = "cancel_safe"
  MaxErr = 0
  MaxPending = 0
  MaxCancel = 0
  MaxTimeout = 0
  MaxWrites = 1
  WLens = {4}
  FrameOK <- FrameAny
  KeepHist = TRUE
VIEW View
INVARIANTS TypeOK InOrder NoLoss FramingInv BufferInv PongsOk NoPartialPong WritesOk UnitsOk DiscOk EmitInv
PROPERTIES ErrNoLoss
CHECK_DEADLOCK FALSE
