---------------------------- MODULE MC_Files ----------------------------
(* Enumerates file shapes x every cut point x hostile counts with the verdict of LfsFiles. *)
EXTENDS LfsFiles, Json, IOUtils, TLC
CONSTANTS MaxNodes, MaxObjs, MaxElems, MaxCps

ObjShapes == {[np |-> p, nt |-> t] : p \in 0..MaxElems, t \in 0..MaxElems}
RECURSIVE SeqsUpTo(_, _)
SeqsUpTo(S, n) == IF n = 0 THEN {<<>>} ELSE LET prev == SeqsUpTo(S, n - 1) IN prev \cup {Append(q, x) : q \in {r \in prev : Len(r) = n - 1}, x \in S}
SmxShapes == {[objs |-> os, cps |-> c] : os \in SeqsUpTo(ObjShapes, MaxObjs), c \in 0..MaxCps}

None == [pos |-> "none", how |-> "", idx |-> 0]
Out(fmt, shape, h, cut, total, verdict) ==
  PrintT(<<"FILE", ToJson([fmt |-> fmt, shape |-> shape, hostile |-> h, cut |-> cut, total |-> total, verdict |-> verdict])>>)

VARIABLE phase
Init == phase = 1
Next ==
  \/ /\ phase = 1 /\ phase' = 2
     /\ \A n \in 0..MaxNodes :
          /\ \A c \in PthCuts(n) : Out("pth", [n |-> n], None, c, PthTotal(n), PthVerdict(n, "", c))
          /\ \A w \in Hostile : \A c \in {PthHeader - 1, PthHeader, PthTotal(n)} :
                 Out("pth", [n |-> n], [pos |-> "nodes", how |-> w, idx |-> 0], c, PthTotal(n), PthVerdict(n, w, c))
     \* node counts around 2^16 (a count is a 32-bit integer, not a node index): the full image, cuts near the end and
     \* inside the nodes beyond 65535
     /\ \A n \in {65535, 65536, 70000} :
          \A c \in {PthTotal(n), PthTotal(n) - 1, PthTotal(n) - PthNode, PthTotal(65535), PthTotal(65535) + 1} :
              c <= PthTotal(n) => Out("pth", [n |-> n], None, c, PthTotal(n), PthVerdict(n, "", c))
  \/ /\ phase = 2 /\ phase' = 3
     /\ \A s \in SmxShapes :
          /\ \A c \in 0..SmxTotal(s) : Out("smx", s, None, c, SmxTotal(s), SmxVerdict(s, None, c))
          /\ \A h \in SmxHostiles(s) : Out("smx", s, h, SmxTotal(s), SmxTotal(s), SmxVerdict(s, h, SmxTotal(s)))
Spec == Init /\ [][Next]_phase

\* laws of the model itself: exactly one cut of a well-formed image is accepted, and it is the full image
Laws == /\ \A n \in 0..MaxNodes : {c \in PthCuts(n) : PthVerdict(n, "", c) = "ok"} = {PthTotal(n)}
        /\ \A s \in SmxShapes : {c \in 0..SmxTotal(s) : SmxVerdict(s, None, c) = "ok"} = {SmxTotal(s)}
ASSUME Laws
=============================================================================
