---------------------------- MODULE MC_Conn ----------------------------
(* Model-checking harness for LfsConn: constant sets, constraint, and the      *)
(* replay emitter (one JSON line per quiescent behaviour when EMIT is set).    *)
EXTENDS LfsConn, Json, IOUtils

CONSTANTS EmSmallFills,   \* replay generation: how many transport reads of a behaviour take an arbitrary size
          EmSizes,        \* ... the sizes they may take (besides 'everything available')
          EmPong,         \* ... sizes a partial keep-alive reply write may take (besides 'the rest')
          EmWacc,         \* ... sizes a partial user write may take (besides 'the rest')
          EmBp            \* BOOLEAN: back-pressure behaviours: the relay sends whole binary messages only and the socket only
                          \* becomes blocked while the connection is busy (bounds the number of equivalent paths)

ClsStream == {"ka", "tiny", "pkt", "bad", "ver9", "verX"}
ClsSeg == {"ka", "tiny", "pkt", "bad"}
ClsGate == {"ver9", "verX", "pkt"}
ClsKa == {"ka"}
ClsPong == {"ka", "tiny", "pkt"}
ClsSmall  == {"ka", "pkt", "bad", "verX"}
ClsShort  == {"ka", "pkt", "short"}
ClsUdp    == {"ka", "pkt", "bad"}
L48  == {4, 8}
L4812 == {4, 8, 12}
S1 == {1}
S13 == {1, 3}
S134 == {1, 3, 4}
S13458 == {1, 3, 4, 5, 8}
S_4_19_20 == {4, 19, 20}
None == {}
W48 == {4, 8}
W4 == {4}
W8_12 == {8, 12}
W8 == {8}
W44 == {44}
BothFlavors == {"blocking", "tokio"}
OnlyTokio == {"tokio"}
OnlyBlocking == {"blocking"}
TStream == {"stream"}
TUdp == {"udp"}
TWs == {"ws"}
GateBoth == {TRUE, FALSE}
GateOn == {TRUE}

FrameAny(n, c) == TRUE
\* lengths the concrete frames of a class really have (keep-alive / TINY 4, VER 20)
FrameReal(n, c) == /\ (c \in {"ka", "tiny", "short"} => n = 4)
                   /\ (c \in {"ver9", "verX"} => n = 20)
L4820 == {4, 8, 20}
L48_12_20 == {4, 8, 12, 20}

\* Replay generation keeps hist in the state (no VIEW): one state per path.  Partial-order
\* reduction for the scripted stream transport: the peer sends everything before the first
\* read() - the transport, not the arrival time, decides how the bytes are segmented.
SendFirst == (Len(sent') > Len(sent) \/ eof' # eof) => ~\E i \in DOMAIN hist : hist[i].a = "read"
\* ... and only the first SmallFills transport reads of a behaviour take an arbitrary size;
\* later ones deliver everything that is available (bounds the number of paths, not their shape)
NFills == Cardinality({i \in DOMAIN hist : hist[i].a = "fill"})
FillBudget == (Len(hist') > Len(hist) /\ hist'[Len(hist')].a = "fill" /\ NFills >= EmSmallFills)
                 => hist'[Len(hist')].n = Min2(Offered, Len(net))
SizeBudget == (Len(hist') > Len(hist) /\ hist'[Len(hist')].a = "fill")
                 => (hist'[Len(hist')].n \in EmSizes \/ hist'[Len(hist')].n = Min2(Offered, Len(net)))
PongBudget == (Len(hist') > Len(hist) /\ hist'[Len(hist')].a = "pongw") => hist'[Len(hist')].n \in (EmPong \cup {pongleft})
WaccBudget == (Len(hist') > Len(hist) /\ hist'[Len(hist')].a = "wacc") => hist'[Len(hist')].n \in (EmWacc \cup {wleft})
\* simulation (SIM_MIN = n): the peer produces at least n frames and closes before the reader starts, so that random walks
\* yield long sessions instead of mostly empty ones
SimMin == IF "SIM_MIN" \in DOMAIN IOEnv THEN atoi(IOEnv.SIM_MIN) ELSE 0
SimShape == SimMin > 0 => /\ (eof' # eof => Len(sent) >= SimMin)
                          /\ (~eof => pc' = pc)
BpShape == EmBp => /\ (Len(net') > Len(net) /\ IsWs => (net'[Len(net')].kind = "binary" /\ wsq' = <<>>))
                   /\ (blocked' /\ ~blocked => pc \in {"loop", "pong", "write"})
EmitNext == Next /\ SendFirst /\ FillBudget /\ SizeBudget /\ PongBudget /\ WaccBudget /\ SimShape /\ BpShape
EmitSpec == Init /\ [][EmitNext]_vars

\* A behaviour is worth replaying when the reader is at rest and everything sent was consumed
Done == Quiescent /\ (IsWs => wsq = <<>>) /\ Len(sent) = MaxFrames /\ nwrites = MaxWrites /\ pc # "write"

\* ... and a behaviour ends when everything was consumed (and, if the peer closed, the close was observed)
\* simulation (EMIT_ANY): the peer sends any number of frames and closes; the behaviour ends when the closure was observed
DoneAny == eof /\ pc = "closed" /\ pending = 0 /\ Len(abuf) = 0
Finished == IF "EMIT_ANY" \in DOMAIN IOEnv THEN (DoneAny \/ pc = "dead")
            ELSE (Done /\ (eof => pc = "closed")) \/ pc = "dead"
StopWhenFinished == ~Finished            \* ACTION_CONSTRAINT: no step out of a finished state

Emit == IF "EMIT" \in DOMAIN IOEnv /\ Finished
        THEN PrintT(<<"REPLAY", ToJson([cfg |-> cfg, steps |-> hist])>>) ELSE TRUE
EmitInv == Emit
=============================================================================
