---------------------------- MODULE MC_Conn ----------------------------
(* Model-checking harness for LfsConn: constant sets, constraint, and the      *)
(* replay emitter (one JSON line per quiescent behaviour when EMIT is set).    *)
EXTENDS LfsConn, Json, IOUtils

ClsStream == {"ka", "tiny", "pkt", "bad", "ver9", "verX"}
ClsSmall  == {"ka", "pkt", "bad", "verX"}
ClsShort  == {"ka", "pkt", "short"}
ClsUdp    == {"ka", "pkt", "bad"}
L48  == {4, 8}
L4812 == {4, 8, 12}
BothFlavors == {"blocking", "tokio"}
OnlyTokio == {"tokio"}
OnlyBlocking == {"blocking"}
TStream == {"stream"}
TUdp == {"udp"}
TWs == {"ws"}
GateBoth == {TRUE, FALSE}
GateOn == {TRUE}

\* A behaviour is worth replaying when the reader is at rest and everything sent was consumed
Done == Quiescent /\ (IsWs => wsq = <<>>) /\ Len(sent) >= 1

Emit == IF "EMIT" \in DOMAIN IOEnv /\ Done
        THEN PrintT(<<"REPLAY", ToJson([cfg |-> cfg, steps |-> hist])>>) ELSE TRUE
EmitInv == Emit
=============================================================================
