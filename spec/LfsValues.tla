----------------------------- MODULE LfsValues -----------------------------
(***************************************************************************)
(* Value conversions of insim_core: vehicle identifiers (C13), the track     *)
(* table's generic rules (C14), game versions (C16).  Durations and race     *)
(* lengths (C15) are the operators Units / DurOf / RaceLapsByte / RaceLapsOf *)
(* of LfsWire.                                                               *)
(***************************************************************************)
EXTENDS LfsWire

----------------------------------------------------------------------------
(* C13: a 4-byte car identifier, InSim v9 rule *)
IsDigit(c) == c \in 48..57
IsUpper(c) == c \in 65..90
IsLower(c) == c \in 97..122
IsAlnum(c) == IsDigit(c) \/ IsUpper(c) \/ IsLower(c)
StdVehicles == {<<88,70,71>>, <<88,82,71>>, <<70,66,77>>, <<88,82,84>>, <<82,66,52>>, <<70,88,79>>, <<76,88,52>>, <<76,88,54>>,
                <<77,82,84>>, <<85,70,49>>, <<82,65,67>>, <<70,90,53>>, <<70,79,88>>, <<88,70,82>>, <<85,70,82>>, <<70,79,56>>,
                <<70,88,82>>, <<88,82,82>>, <<70,90,82>>, <<66,70,49>>}
\* flat rule
VehClass(b) ==
  IF b = <<0, 0, 0, 0>> THEN [k |-> "unknown", name |-> <<>>, id |-> <<0, 0>>]
  ELSE IF b[4] = 0 /\ IsAlnum(b[1]) /\ IsAlnum(b[2]) /\ IsAlnum(b[3])
       THEN IF SubSeq(b, 1, 3) \in StdVehicles THEN [k |-> "std", name |-> SubSeq(b, 1, 3), id |-> <<0, 0>>]
            ELSE [k |-> "error", name |-> <<>>, id |-> <<0, 0>>]
  ELSE [k |-> "mod", name |-> <<>>, id |-> <<b[1] + 256 * b[2], b[3] + 256 * b[4]>>]
\* the same rule as a decision over byte positions (what a box of identifiers with a fixed class looks like)
VehClassTree(b) ==
  IF b[4] # 0 THEN "mod"
  ELSE IF ~IsAlnum(b[1]) \/ ~IsAlnum(b[2]) \/ ~IsAlnum(b[3]) THEN (IF b[1] = 0 /\ b[2] = 0 /\ b[3] = 0 THEN "unknown" ELSE "mod")
  ELSE IF SubSeq(b, 1, 3) \in StdVehicles THEN "std" ELSE "error"
VehWire(v) == VehBytes(v)
\* the printed form: the three-letter name, or LFS's skin id of a mod: the identifier in upper-case hexadecimal, at least 6 digits
HexDigit(d) == IF d < 10 THEN 48 + d ELSE 55 + d
Hex4(n) == <<HexDigit(n \div 4096), HexDigit((n \div 256) % 16), HexDigit((n \div 16) % 16), HexDigit(n % 16)>>
ModName(id) == LET d == Hex4(id[2]) \o Hex4(id[1]) IN
               IF d[1] = 48 /\ d[2] = 48 THEN SubSeq(d, 3, 8) ELSE IF d[1] = 48 THEN SubSeq(d, 2, 8) ELSE d
VehDisplay(c) == CASE c.k = "std" -> c.name [] c.k = "mod" -> ModName(c.id) [] OTHER -> <<85, 110, 107, 110, 111, 119, 110>>
\* the licence a car needs (LFS: three demo cars, six more with S1, the rest of the built-in cars with S2, mods with S3)
VehLicence(c) == IF c.k # "std" THEN "S3"
                 ELSE IF c.name \in {<<88,70,71>>, <<88,82,71>>, <<70,66,77>>} THEN "Demo"
                 ELSE IF c.name \in {<<88,82,84>>, <<82,66,52>>, <<70,88,79>>, <<76,88,52>>, <<76,88,54>>, <<77,82,84>>} THEN "S1"
                 ELSE "S2"

----------------------------------------------------------------------------
(* C14: rules every track configuration obeys, generic in its short code *)
LastOf(s) == s[Len(s)]
CodeShapeOk(c) == /\ Len(c) \in 3..5 /\ IsUpper(c[1]) /\ IsUpper(c[2]) /\ IsDigit(c[3])
                  /\ (Len(c) = 4 => IsDigit(c[4]) \/ IsUpper(c[4]))
                  /\ (Len(c) = 5 => IsDigit(c[4]) /\ IsUpper(c[5]))
TrackWire(c) == PadTo(c, 6)
TrackReversed(c) == LastOf(c) \in {82, 89}      \* R, Y
TrackOpen(c) == LastOf(c) \in {88, 89}          \* X, Y
TrackArea(c) == SubSeq(c, 1, 2)
\* the configuration a reversed / open configuration is derived from: BL1R -> BL1, AS7Y -> AS7X -> AS7
TrackBaseCfg(c) == IF LastOf(c) \in {82, 88} THEN SubSeq(c, 1, Len(c) - 1)
                   ELSE IF LastOf(c) = 89 THEN SubSeq(c, 1, Len(c) - 1) \o <<88>> ELSE c
\* the configuration code without its R / X / Y letter, and that letter (0 = none)
TrackStem(c) == IF Len(c) >= 4 /\ LastOf(c) \in {82, 88, 89} THEN SubSeq(c, 1, Len(c) - 1) ELSE c
TrackSuffix(c) == IF Len(c) >= 4 /\ LastOf(c) \in {82, 88, 89} THEN LastOf(c) ELSE 0
\* BL Blackwood; SO South City; FE Fern Bay; AU Autocross; KY Kyoto; WE Westhill; AS Aston; RO Rockingham; LA Layout Square (as code points)
AreaName == [BL |-> <<66, 108, 97, 99, 107, 119, 111, 111, 100>>, SO |-> <<83, 111, 117, 116, 104, 32, 67, 105, 116, 121>>, FE |-> <<70, 101, 114, 110, 32, 66, 97, 121>>, AU |-> <<65, 117, 116, 111, 99, 114, 111, 115, 115>>, KY |-> <<75, 121, 111, 116, 111>>, WE |-> <<87, 101, 115, 116, 104, 105, 108, 108>>, AS |-> <<65, 115, 116, 111, 110>>, RO |-> <<82, 111, 99, 107, 105, 110, 103, 104, 97, 109>>, LA |-> <<76, 97, 121, 111, 117, 116, 32, 83, 113, 117, 97, 114, 101>>]
\* area codes and the licence their area needs
AreaLicence == [BL |-> "Demo", SO |-> "S1", FE |-> "S1", AU |-> "S1", KY |-> "S2", WE |-> "S2", AS |-> "S2", RO |-> "S3", LA |-> "S3"]
AreaKey(c) == CASE TrackArea(c) = <<66, 76>> -> "BL" [] TrackArea(c) = <<83, 79>> -> "SO" [] TrackArea(c) = <<70, 69>> -> "FE"
                [] TrackArea(c) = <<65, 85>> -> "AU" [] TrackArea(c) = <<75, 89>> -> "KY" [] TrackArea(c) = <<87, 69>> -> "WE"
                [] TrackArea(c) = <<65, 83>> -> "AS" [] TrackArea(c) = <<82, 79>> -> "RO" [] TrackArea(c) = <<76, 65>> -> "LA"
                [] OTHER -> "??"

----------------------------------------------------------------------------
(* C16: game versions: <number><letter>[<revision>] *)
IsAlpha(c) == IsUpper(c) \/ IsLower(c)
Upper(c) == IF IsLower(c) THEN c - 32 ELSE c
\* chars the implementation's scanner treats as part of a number / revision: ASCII digits, and any other
\* Unicode numeric character (which then fails to parse) - the harness tags those as class 200000+
IsNumericLike(c) == IsDigit(c) \/ c >= 200000
MajorChar(c) == IsNumericLike(c) \/ c = 46
RECURSIVE TakeMajor(_, _), TakeNumeric(_, _)
TakeMajor(s, i) == IF i <= Len(s) /\ MajorChar(s[i]) THEN TakeMajor(s, i + 1) ELSE i          \* first index that is not part of the number
TakeNumeric(s, i) == IF i <= Len(s) /\ IsNumericLike(s[i]) THEN TakeNumeric(s, i + 1) ELSE i
\* a decimal number Rust's f32::from_str accepts when it is made of digits and dots only
ValidNumber(t) == /\ \A i \in 1..Len(t) : IsDigit(t[i]) \/ t[i] = 46
                  /\ Cardinality({i \in 1..Len(t) : t[i] = 46}) <= 1
                  /\ \E i \in 1..Len(t) : IsDigit(t[i])
AllDigits(t) == Len(t) >= 1 /\ \A i \in 1..Len(t) : IsDigit(t[i])
RECURSIVE DecVal(_)
DecVal(t) == IF t = <<>> THEN 0 ELSE 10 * DecVal(SubSeq(t, 1, Len(t) - 1)) + (t[Len(t)] - 48)
\* the three-phase parser; result [ok, major (text), minor (code point), patch (-1 = none)]
GvParse(s) ==
  IF s = <<>> THEN [ok |-> TRUE, major |-> <<>>, minor |-> 65, patch |-> -1, steps |-> 0]
  ELSE
  LET e1 == TakeMajor(s, 1)  major == SubSeq(s, 1, e1 - 1) IN
  IF ~ValidNumber(major) THEN [ok |-> FALSE, major |-> major, minor |-> 0, patch |-> -1, steps |-> 1]
  ELSE IF e1 > Len(s) THEN [ok |-> TRUE, major |-> major, minor |-> 65, patch |-> -1, steps |-> 1]
  ELSE IF ~IsAlpha(s[e1]) THEN [ok |-> FALSE, major |-> major, minor |-> 0, patch |-> -1, steps |-> 2]
  ELSE IF e1 = Len(s) THEN [ok |-> TRUE, major |-> major, minor |-> Upper(s[e1]), patch |-> -1, steps |-> 2]
  ELSE LET e2 == TakeNumeric(s, e1 + 1)  rev == SubSeq(s, e1 + 1, e2 - 1) IN
       \* everything after the letter must be one run of ASCII digits
       IF e2 <= Len(s) \/ ~AllDigits(rev) THEN [ok |-> FALSE, major |-> major, minor |-> Upper(s[e1]), patch |-> -1, steps |-> 3]
       \* a revision of ten digits and more may be beyond the implementation's integer (patch -2: accepted with its value or refused
       \* with an error, never a panic or a loop)
       ELSE [ok |-> TRUE, major |-> major, minor |-> Upper(s[e1]), patch |-> IF Len(rev) > 9 THEN -2 ELSE DecVal(rev), steps |-> 3]

\* order on abstract versions [num (rank of the number), minor, patch]: number, then letter, then revision (missing = 0)
P0(v) == IF v.patch < 0 THEN 0 ELSE v.patch
GvCmp(a, b) == IF a.num # b.num THEN (IF a.num < b.num THEN -1 ELSE 1)
               ELSE IF a.minor # b.minor THEN (IF a.minor < b.minor THEN -1 ELSE 1)
               ELSE IF P0(a) # P0(b) THEN (IF P0(a) < P0(b) THEN -1 ELSE 1)
               ELSE 0
GvEq(a, b) == a.num = b.num /\ a.minor = b.minor /\ P0(a) = P0(b)
=============================================================================
