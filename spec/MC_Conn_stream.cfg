SPECIFICATION Spec
CONSTANTS
  MaxFrames = 3
  Lens <- L48
  Classes <- ClsStream
  Cap = 12
  MaxDgram = 8
  Transports <- TStream
  Flavors <- BothFlavors
  Verifies <- GateBoth
  WritePolicy = "write_all"
  UdpPolicy = "buffered"
  PongPolicy = "cancel_safe"
  MaxErr = 1
  MaxPending = 0
  MaxCancel = 0
  MaxTimeout = 0
  MaxWrites = 0
  WLens = {}
  FrameOK <- FrameAny
  KeepHist = TRUE
VIEW View
INVARIANTS TypeOK InOrder NoLoss FramingInv BufferInv PongsOk NoPartialPong WritesOk UnitsOk DiscOk EmitInv
PROPERTIES ErrNoLoss
CHECK_DEADLOCK FALSE
