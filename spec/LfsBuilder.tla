---------------------------- MODULE LfsBuilder ----------------------------
(***************************************************************************)
(* insim::Builder as a state machine: the fields the handshake depends on,   *)
(* every public setter as an action (later calls override earlier ones), the *)
(* ISI packet the configuration must produce (IsiOf) and the only bytes the  *)
(* handshake may put on the wire (Handshake) - C18.                          *)
(***************************************************************************)
EXTENDS LfsWire, Json, IOUtils

CONSTANTS MaxCalls,        \* length of the setter sequences explored
          Emit             \* TRUE: print one line per behaviour (history kept in the state)

FlagNames == {"LOCAL", "MSO_COLS", "NLP", "MCI", "CON", "OBH", "HLV", "AXM_LOAD", "AXM_EDIT", "REQ_JOIN"}
NoneV == [some |-> FALSE, v |-> 0]
SomeV(x) == [some |-> TRUE, v |-> x]

VARIABLES flags,      \* set of flag names
          prefix, interval, iname, admin,     \* optional values
          reqi, proto,                         \* "tcp" | "udp" | "relay"
          local,                               \* udp local address given ?
          mode,                                \* "C" | "U"
          verify,                              \* the version gate of the connection to be built (C09); on by default
          calls                                \* history of setter calls (hidden by VIEW unless Emit)
vars == <<flags, prefix, interval, iname, admin, reqi, proto, local, mode, verify, calls>>
view == <<flags, prefix, interval, iname, admin, reqi, proto, local, mode, verify, Len(calls)>>

Init == /\ flags = {} /\ prefix = NoneV /\ interval = NoneV /\ iname = NoneV /\ admin = NoneV
        /\ reqi = 0 /\ proto = "tcp" /\ local = FALSE /\ mode = "C" /\ verify = TRUE /\ calls = <<>>

Call(name, arg) == calls' = Append(calls, [name |-> name, arg |-> arg])
Can == Len(calls) < MaxCalls

SetFlag(f, on) == /\ Can /\ flags' = (IF on THEN flags \cup {f} ELSE flags \ {f}) /\ Call("isi_flag", [flag |-> f, on |-> on])
                  /\ UNCHANGED <<prefix, interval, iname, admin, reqi, proto, local, mode, verify>>
SetFlags(fs) == /\ Can /\ flags' = fs /\ Call("isi_flags", SetToSeq(fs))
                /\ UNCHANGED <<prefix, interval, iname, admin, reqi, proto, local, mode, verify>>
SetPrefix(p) == /\ Can /\ prefix' = p /\ Call("isi_prefix", p)
                /\ UNCHANGED <<flags, interval, iname, admin, reqi, proto, local, mode, verify>>
SetInterval(i) == /\ Can /\ interval' = i /\ Call("isi_interval", i)
                  /\ UNCHANGED <<flags, prefix, iname, admin, reqi, proto, local, mode, verify>>
SetIname(n) == /\ Can /\ iname' = n /\ Call("isi_iname", n)
               /\ UNCHANGED <<flags, prefix, interval, admin, reqi, proto, local, mode, verify>>
SetAdmin(a) == /\ Can /\ admin' = a /\ Call("isi_admin_password", a)
               /\ UNCHANGED <<flags, prefix, interval, iname, reqi, proto, local, mode, verify>>
SetReqi(r) == /\ Can /\ reqi' = r /\ Call("isi_reqi", r)
              /\ UNCHANGED <<flags, prefix, interval, iname, admin, proto, local, mode, verify>>
UseTcp == /\ Can /\ proto' = "tcp" /\ Call("tcp", 0)
          /\ UNCHANGED <<flags, prefix, interval, iname, admin, reqi, local, mode, verify>>
\* udp(remote, local): replaces the local address, also by None
UseUdp(withLocal) == /\ Can /\ proto' = "udp" /\ local' = withLocal /\ Call("udp", withLocal)
                     /\ UNCHANGED <<flags, prefix, interval, iname, admin, reqi, mode, verify>>
UseRelay == /\ Can /\ proto' = "relay" /\ Call("relay", 0)
            /\ UNCHANGED <<flags, prefix, interval, iname, admin, reqi, local, mode, verify>>
SetMode(m) == /\ Can /\ mode' = m /\ Call(IF m = "C" THEN "compressed" ELSE "uncompressed", 0)
              /\ UNCHANGED <<flags, prefix, interval, iname, admin, reqi, proto, local, verify>>

SetVerify(b) == /\ Can /\ verify' = b /\ Call("verify_version", b)
                /\ UNCHANGED <<flags, prefix, interval, iname, admin, reqi, proto, local, mode>>

\* setters the handshake does NOT depend on (relay options, time limit, socket option): they change nothing the ISI is made of -
\* in particular the relay's passwords never reach the ISI's admin field
OtherSetters == {"relay_select_host", "relay_spectator_password", "relay_admin_password", "relay_websocket", "connect_timeout", "tcp_nodelay"}
SetOther(n, a) == /\ Can /\ Call(n, a)
                  /\ UNCHANGED <<flags, prefix, interval, iname, admin, reqi, proto, local, mode, verify>>

PrefixVals == {NoneV, SomeV(33)}
Intervals == {NoneV, SomeV(250), SomeV(1000)}
Names == {NoneV, SomeV(<<97, 98, 99>>)}
Admins == {NoneV, SomeV(<<112, 119>>), SomeV(<<112, 228, 223>>)}      \* none, "pw", a password that is not ASCII
FlagSets == {{}, {"MCI", "CON"}, FlagNames}

Next == \/ \E f \in FlagNames, on \in BOOLEAN : SetFlag(f, on)
        \/ \E fs \in FlagSets : SetFlags(fs)
        \/ \E p \in PrefixVals : SetPrefix(p)
        \/ \E i \in Intervals : SetInterval(i)
        \/ \E n \in Names : SetIname(n)
        \/ \E a \in Admins : SetAdmin(a)
        \/ \E r \in {0, 7} : SetReqi(r)
        \/ UseTcp \/ UseUdp(TRUE) \/ UseUdp(FALSE) \/ UseRelay
        \/ \E m \in {"C", "U"} : SetMode(m)
        \/ \E b \in BOOLEAN : SetVerify(b)
        \/ \E n \in OtherSetters, a \in {NoneV, SomeV(<<114, 115, 101, 99>>)} : SetOther(n, a)
Spec == Init /\ [][Next]_vars

\* the ISI the configuration must produce; LocalPort stands for the port of the configured local address
LocalPort == 47000
DefaultIname == <<105, 110, 115, 105, 109, 46, 114, 115>>        \* "insim.rs"
IsiOf == [reqi |-> reqi,
          udpport |-> IF proto = "udp" /\ local THEN LocalPort ELSE 0,
          flags |-> SetToSeq(flags),
          version |-> 9,
          prefix |-> IF prefix.some THEN prefix.v ELSE 0,
          interval |-> [ms |-> <<IF interval.some THEN interval.v ELSE 0, 0, 0, 0>>, ns |-> 0],
          admin |-> IF admin.some THEN admin.v ELSE <<>>,
          iname |-> IF iname.some THEN iname.v ELSE DefaultIname]
\* the connection that connect_*() returns applies the version gate iff `verify` (C09: "only when enabled")
\* connecting sends that ISI as the first and only frame, in the configured size mode
Handshake == SpecEncode("Isi", IsiOf, mode)

TypeOK == flags \subseteq FlagNames /\ proto \in {"tcp", "udp", "relay"} /\ mode \in {"C", "U"}
\* the handshake is always one well-formed 44-byte ISI frame
HandshakeOk == /\ Len(Handshake) = 44 /\ Handshake[2] = 1 /\ Handshake[3] = reqi
               /\ Handshake[1] = (IF mode = "C" THEN 11 ELSE 44)
EmitInv == IF Emit THEN PrintT(<<"BUILD", ToJson([calls |-> calls, isi |-> IsiOf, proto |-> proto, local |-> local, mode |-> mode, gate |-> verify,
                                                   handshake |-> Handshake])>>) ELSE TRUE
=============================================================================
