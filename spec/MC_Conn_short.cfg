SPECIFICATION Spec
CONSTANTS
  MaxFrames = 3
  Lens <- L48
  Classes <- ClsShort
  Cap = 12
  MaxDgram = 8
  Transports <- TStream
  Flavors <- BothFlavors
  Verifies <- GateOn
  WritePolicy = "write_all"
  UdpPolicy = "buffered"
  PongPolicy = "cancel_safe"
  MaxErr = 0
  MaxPending = 0
  MaxCancel = 0
  MaxTimeout = 0
  MaxWrites = 0
  WLens = {}
VIEW View
INVARIANTS TypeOK InOrder NoLoss FramingInv BufferInv PongsOk NoPartialPong WritesOk UnitsOk DiscOk EmitInv
PROPERTIES ErrNoLoss
CHECK_DEADLOCK FALSE
