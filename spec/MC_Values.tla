---------------------------- MODULE MC_Values ----------------------------
(* Generators over LfsValues: every string up to a bounded length over a class-representative alphabet with the   *)
(* expected parse (C16), a version set with its abstract order keys (C16), vehicle boundary vectors (C13).       *)
EXTENDS LfsValues, Json, IOUtils
CONSTANTS MaxLen

\* two digits, '.', upper letter, lower letter, another ASCII character, a non-ASCII numeric character, a non-ASCII letter
GvAlphabet == <<48, 55, 46, 69, 101, 45, 200001, 233>>
RECURSIVE Strings(_)
Strings(n) == IF n = 0 THEN {<<>>} ELSE LET prev == Strings(n - 1) IN prev \cup {Append(s, GvAlphabet[i]) : s \in {t \in prev : Len(t) = n - 1}, i \in 1..Len(GvAlphabet)}

\* version set: number texts in increasing numeric order (rank = index), letters, revisions
\* numbers in increasing order with their rank: 0.04 0.041 0.5 0.6 0.7 0.701 0.704 1 (neighbours that differ only in the third
\* decimal) - and other spellings of 0.7 and 1 (0.70 .7 00.7 0.7000000001 (the same 32-bit float) 1.0 01)
Nums == << <<48, 46, 48, 52>>, <<48, 46, 48, 52, 49>>, <<48, 46, 53>>, <<48, 46, 54>>, <<48, 46, 55>>, <<48, 46, 55, 48, 49>>, <<48, 46, 55, 48, 52>>, <<49>>,
           <<48, 46, 55, 48>>, <<46, 55>>, <<48, 48, 46, 55>>, <<48, 46, 55, 48, 48, 48, 48, 48, 48, 48, 48, 49>>, <<49, 46, 48>>, <<48, 49>>,
           \* the 32-bit float next to 0.7, and a number beyond the range of a 32-bit float (infinite once parsed)
           <<48, 46, 55, 48, 48, 48, 48, 48, 48, 53>>, [i \in 1..40 |-> IF i = 1 THEN 49 ELSE 48] >>
NumRank == <<1, 2, 3, 4, 5, 7, 8, 9, 5, 5, 5, 5, 9, 9, 6, 10>>
Letters == <<65, 69, 90, 101>>                                                     \* A E Z e(=E)
\* revisions; the last three are LABELS (TLC's integers have 32 bits) for 2^63 - 1, 2^63 and 2^64 - 1: order-preserving stand-ins
\* whose text is the real number (a comparison by subtraction, or through a signed integer, goes wrong from 2^63 on)
Patches == <<-1, 0, 1, 12, 2000000001, 2000000002, 2000000003>>
BigText == <<"9223372036854775807", "9223372036854775808", "18446744073709551615">>
AsciiOf(str) == [i \in 1..Len(str) |-> 48 + (CHOOSE d \in 0..9 : SubSeq("0123456789", d + 1, d + 1) = SubSeq(str, i, i))]
RECURSIVE Digits(_)
Digits(n) == IF n < 10 THEN <<48 + n>> ELSE Digits(n \div 10) \o <<48 + (n % 10)>>
PatchText(q) == IF q < 0 THEN <<>> ELSE IF q > 2000000000 THEN AsciiOf(BigText[q - 2000000000]) ELSE Digits(q)
VerText(ni, li, pi) == Nums[ni] \o <<Letters[li]>> \o PatchText(Patches[pi])
VerKey(ni, li, pi) == [num |-> NumRank[ni], minor |-> Upper(Letters[li]), patch |-> Patches[pi]]
Versions == {<<ni, li, pi>> : ni \in 1..Len(Nums), li \in 1..Len(Letters), pi \in 1..4}
            \cup {<<ni, li, pi>> : ni \in {5, 8}, li \in {1, 2}, pi \in 5..7}

\* order axioms on the model, all triples
KeyOf(v) == VerKey(v[1], v[2], v[3])
Keys == {KeyOf(v) : v \in Versions}
OrderAxioms ==
  /\ \A a \in Keys : GvCmp(a, a) = 0
  /\ \A a, b \in Keys : GvCmp(a, b) = -GvCmp(b, a)
  /\ \A a, b \in Keys : (GvCmp(a, b) = 0) = GvEq(a, b)
  /\ \A a, b, c \in Keys : (GvCmp(a, b) <= 0 /\ GvCmp(b, c) <= 0) => GvCmp(a, c) <= 0
ASSUME OrderAxioms

\* vehicle boundary bytes in each of the three name positions
Edge == {0, 1, 47, 48, 57, 58, 64, 65, 90, 91, 96, 97, 122, 123, 255}
VehVectors == {<<a, b, c, d>> : a \in Edge, b \in Edge, c \in Edge, d \in {0, 1, 255}}
              \cup {n \o <<0>> : n \in StdVehicles} \cup {n \o <<1>> : n \in StdVehicles}
              \cup {<<Upper(n[1]) + 32, n[2], n[3], 0>> : n \in StdVehicles}          \* lower-cased first letter: not a built-in

\* revisions of 10, 19, 20, 21, 25 and 40 digits (around the limits of 32- and 64-bit integers), with and without leading zeros
Rep(n, c) == [i \in 1..n |-> c]
LongRevisions == {<<48, 46, 55, 70>> \o Rep(n, 57) : n \in {10, 19, 20, 21, 25, 40}}
                 \cup {<<48, 46, 55, 70>> \o Rep(n, 48) \o <<53>> : n \in {9, 20, 40}}
                 \cup {<<48, 46, 55, 70, 49, 56, 52, 52, 54, 55, 52, 52, 48, 55, 51, 55, 48, 57, 53, 53, 49, 54, 49>> \o <<d>> : d \in {53, 54}}   \* 2^64 - 1, 2^64

VARIABLES phase
Init == phase = 1
Next ==
  \/ /\ phase = 1 /\ phase' = 2
     /\ \A s \in Strings(MaxLen) \cup LongRevisions : LET p == GvParse(s) IN
          PrintT(<<"VAL", ToJson([t |-> "gv", in |-> s, ok |-> p.ok, minor |-> p.minor, patch |-> p.patch, steps |-> p.steps])>>)
  \/ /\ phase = 2 /\ phase' = 3
     /\ \A v \in Versions : PrintT(<<"VAL", ToJson([t |-> "ver", text |-> VerText(v[1], v[2], v[3]), key |-> KeyOf(v)])>>)
  \/ /\ phase = 3 /\ phase' = 4
     /\ \A b \in VehVectors : LET c == VehClass(b) IN
          PrintT(<<"VAL", ToJson([t |-> "veh", bytes |-> b, k |-> c.k, name |-> c.name, id |-> c.id, wire |-> IF c.k = "error" THEN <<>> ELSE VehWire(c)])>>)
Spec == Init /\ [][Next]_phase

\* C16 "never loops": the parser is done in at most three phases, and C13: the two forms of the vehicle rule agree
Laws == /\ \A s \in Strings(IF MaxLen > 4 THEN 4 ELSE MaxLen) : GvParse(s).steps <= 3
        /\ \A b \in VehVectors : VehClassTree(b) = VehClass(b).k /\ (VehClass(b).k # "error" => VehWire(VehClass(b)) = b)
ASSUME Laws
=============================================================================
