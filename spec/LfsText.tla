------------------------------ MODULE LfsText ------------------------------
(***************************************************************************)
(* LFS text rules over code points and bytes (C10, C11, C12).                *)
(*                                                                           *)
(* CpDecode is LFS's reading rule: left to right with a current code page    *)
(* (Latin-1 = Windows-1252 initially); ^^ is an atomic escaped caret; ^X     *)
(* with X in L G C E T B J S K H selects Windows code page 1252 1253 1251    *)
(* 1250 1254 1257 932 936 949 950 and is dropped; ^8 selects Latin-1 and is  *)
(* KEPT; any other caret sequence passes through; in a double-byte page a    *)
(* lead byte consumes its trail byte unexamined.  Bytes a page leaves        *)
(* undefined decode to DontCare (-1): only totality is required there.            *)
(*                                                                           *)
(* The encoder is accepted by postcondition (EncodeOk): whatever order it    *)
(* tries the pages in, LFS must read the text back.                          *)
(***************************************************************************)
EXTENDS LfsCodepages, FiniteSets, TLC

Caret == 94
DontCare == -1
IsDigit(c) == c \in 48..57
\* marker letter -> page
Page == (76 :> "L") @@ (71 :> "G") @@ (67 :> "C") @@ (69 :> "E") @@ (84 :> "T") @@ (66 :> "B")
        @@ (74 :> "J") @@ (83 :> "S") @@ (75 :> "K") @@ (72 :> "H")
SBPages == {"L", "G", "C", "E", "T", "B"}
DBPages == {"J", "S", "K", "H"}
IsDB(p) == p \in DBPages

One(p, b) == IF b < 128 THEN b
             ELSE IF p = "J" /\ b \in 161..223 THEN 65377 + (b - 161)   \* code page 932's single-byte half-width katakana
             ELSE IF IsDB(p) THEN DontCare            \* a lone high byte in a double-byte page
             ELSE SBHigh[p][b - 127]
DBLookup(p, lead, trail) ==
  IF UseTable THEN (IF trail \in 64..254 THEN DBTable[p][(lead - 129) * 191 + (trail - 64) + 1] ELSE DontCare) ELSE
  LET hits == {i \in 1..Len(DBPairs[p]) : DBPairs[p][i][1] = lead /\ DBPairs[p][i][2] = trail} IN
  IF hits = {} THEN DontCare ELSE DBPairs[p][CHOOSE i \in hits : TRUE][3]

OptionalCp(c) == -(1000 + c)      \* "c may or may not appear here"
RECURSIVE Dec(_, _)
Dec(bs, cp) ==
  IF bs = <<>> THEN <<>>
  ELSE IF bs[1] = Caret /\ Len(bs) >= 2 /\ bs[2] = Caret THEN <<Caret, Caret>> \o Dec(SubSeq(bs, 3, Len(bs)), cp)
  ELSE IF bs[1] = Caret /\ Len(bs) >= 2 /\ bs[2] \in DOMAIN Page THEN Dec(SubSeq(bs, 3, Len(bs)), Page[bs[2]])
  ELSE IF bs[1] = Caret /\ Len(bs) >= 2 /\ bs[2] = 56 THEN <<Caret, 56>> \o Dec(SubSeq(bs, 3, Len(bs)), "L")
  ELSE IF IsDB(cp) /\ bs[1] \in LeadBytes[cp] /\ Len(bs) >= 2
       THEN LET c == DBLookup(cp, bs[1], bs[2]) IN
            \* a pair the page does not define: only totality is required of its own rendering, and the converter may show an
            \* ASCII trail byte again after it (the WHATWG decoders do); either way the scan has consumed both bytes
            (IF c = DontCare /\ bs[2] < 128 THEN <<DontCare, OptionalCp(bs[2])>> ELSE <<c>>) \o Dec(SubSeq(bs, 3, Len(bs)), cp)
  ELSE <<One(cp, bs[1])>> \o Dec(Tail(bs), cp)
CpDecode(bs) == Dec(bs, "L")

\* every code point some page can express (as far as the tables of this module know)
Repertoire == (0..127) \cup (65377..65439) \cup UNION {{SBHigh[p][i] : i \in 1..128} : p \in SBPages}
              \cup UNION {{DBPairs[p][i][3] : i \in 1..Len(DBPairs[p])} : p \in DBPages}
              \cup (IF UseTable THEN UNION {{DBTable[p][i] : i \in 1..Len(DBTable[p])} : p \in DBPages} \ {-1} ELSE {})
Subst(s, known) == [i \in 1..Len(s) |-> IF s[i] \in known THEN s[i] ELSE 63]      \* '?' for what no page has
\* equal up to don't-care positions of the decoded side
RECURSIVE MatchR(_, _)
MatchR(d, w) == IF d = <<>> THEN w = <<>>
                ELSE IF d[1] <= -1000 THEN MatchR(Tail(d), w) \/ (w # <<>> /\ w[1] = -(d[1] + 1000) /\ MatchR(Tail(d), Tail(w)))
                ELSE w # <<>> /\ (d[1] = DontCare \/ d[1] = w[1]) /\ MatchR(Tail(d), Tail(w))
Matches(decoded, want) == MatchR(decoded, want)

\* ---------------------------------------------------------------- escaping and colours (C12)
UnescMap == (118 :> 124) @@ (97 :> 42) @@ (99 :> 58) @@ (100 :> 92) @@ (115 :> 47) @@ (113 :> 63) @@ (116 :> 34)
            @@ (108 :> 60) @@ (114 :> 62) @@ (104 :> 35) @@ (94 :> 94)
EscMap == [r \in {UnescMap[k] : k \in DOMAIN UnescMap} |-> CHOOSE k \in DOMAIN UnescMap : UnescMap[k] = r]
Reserved == DOMAIN EscMap \ {Caret}

RECURSIVE Esc(_), Unesc(_), Strip(_)
\* a colour code ^0..^9 is passed through; every reserved character (and a caret) becomes ^letter
Esc(s) == IF s = <<>> THEN <<>>
          ELSE IF s[1] = Caret /\ Len(s) >= 2 /\ IsDigit(s[2]) THEN <<Caret, s[2]>> \o Esc(SubSeq(s, 3, Len(s)))
          ELSE IF s[1] \in DOMAIN EscMap THEN <<Caret, EscMap[s[1]]>> \o Esc(Tail(s))
          ELSE <<s[1]>> \o Esc(Tail(s))
Unesc(s) == IF s = <<>> THEN <<>>
            ELSE IF s[1] = Caret /\ Len(s) >= 2 /\ s[2] \in DOMAIN UnescMap THEN <<UnescMap[s[2]]>> \o Unesc(SubSeq(s, 3, Len(s)))
            ELSE <<s[1]>> \o Unesc(Tail(s))
\* removes exactly the ^0..^9 codes; ^^ is atomic
Strip(s) == IF s = <<>> THEN <<>>
            ELSE IF s[1] = Caret /\ Len(s) >= 2 /\ s[2] = Caret THEN <<Caret, Caret>> \o Strip(SubSeq(s, 3, Len(s)))
            ELSE IF s[1] = Caret /\ Len(s) >= 2 /\ IsDigit(s[2]) THEN Strip(SubSeq(s, 3, Len(s)))
            ELSE <<s[1]>> \o Strip(Tail(s))

\* the colour helpers (Colourify): the text with its colour code in front; LFS colours 0..7 and 9 (8 = default colour + Latin-1)
ColourCode == [black |-> 48, red |-> 49, light_green |-> 50, yellow |-> 51, blue |-> 52, purple |-> 53, light_blue |-> 54,
               white |-> 55, dark_green |-> 57]
Colourify(name, s) == <<Caret, ColourCode[name]>> \o s

\* where an escaped string is "wire safe": no reserved character in raw form
NoRawReserved(e) == \A i \in 1..Len(e) : e[i] \notin Reserved
\* carets of an escaped string only occur as ^^, ^digit or ^escape-letter
RECURSIVE WellEscaped(_)
WellEscaped(e) == IF e = <<>> THEN TRUE
                  ELSE IF e[1] = Caret THEN Len(e) >= 2 /\ (e[2] \in DOMAIN UnescMap \/ IsDigit(e[2])) /\ WellEscaped(SubSeq(e, 3, Len(e)))
                  ELSE WellEscaped(Tail(e))

\* ---------------------------------------------------------------- text fields on the wire (C11)
FirstNul(bs) == IF \E i \in 1..Len(bs) : bs[i] = 0 THEN SubSeq(bs, 1, (CHOOSE i \in 1..Len(bs) : bs[i] = 0 /\ \A j \in 1..(i - 1) : bs[j] # 0) - 1) ELSE bs
IsPrefixOf(a, b) == Len(a) <= Len(b) /\ SubSeq(b, 1, Len(a)) = a
AllNul(bs) == \A i \in 1..Len(bs) : bs[i] = 0
\* field = the N bytes found in the frame, enc = the encoded text: exactly N bytes, the text truncated to N, NUL padded
FixedField(field, enc, N) ==
  /\ Len(field) = N
  /\ LET k == IF Len(enc) < N THEN Len(enc) ELSE N IN SubSeq(field, 1, k) = SubSeq(enc, 1, k) /\ AllNul(SubSeq(field, k + 1, N))
\* ... and LFS requires the last byte to be NUL (IS_MST, IS_MSX, IS_MSL)
FixedFieldNul(field, enc, N) ==
  /\ Len(field) = N /\ field[N] = 0
  /\ LET k == IF Len(enc) < N - 1 THEN Len(enc) ELSE N - 1 IN SubSeq(field, 1, k) = SubSeq(enc, 1, k) /\ AllNul(SubSeq(field, k + 1, N))
\* variable field: NUL padded to a multiple of 4, never more than max, the content a prefix of the encoded text,
\* the whole text unless the field is full; needNul: LFS wants at least one terminating NUL (IS_MTC)
VarFieldP(field, enc, max, needNul) ==
  /\ Len(field) % 4 = 0 /\ Len(field) <= max
  /\ LET c == FirstNul(field)  p == Len(field) - Len(c) IN
     /\ IsPrefixOf(c, enc) /\ AllNul(SubSeq(field, Len(c) + 1, Len(field)))
     /\ p \in (IF needNul THEN 1..4 ELSE 0..3)
     /\ (Len(c) < Len(enc) => Len(field) = max)
VarField(field, enc, max) == VarFieldP(field, enc, max, FALSE)
VarFieldNul(field, enc, max) == VarFieldP(field, enc, max, TRUE)
=============================================================================
