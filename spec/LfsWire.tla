----------------------------- MODULE LfsWire -----------------------------
(***************************************************************************)
(* The InSim version 9 and InSim-Relay wire format as data, with an          *)
(* executable reference encoder.                                             *)
(*                                                                           *)
(* Layout[kind] = [type, size (0 = variable), fields = <<descriptor ...>>]   *)
(* is a transcription of InSim.txt / the relay description (DESIGN.md,       *)
(* appendix A) - NOT of the Rust structs.  Field names are the names of the  *)
(* public Rust fields, so that an abstract record projected from a real      *)
(* Packet (harness/src/abs.rs) can be compared with a record of this module; *)
(* enumerant and flag tables are keyed by the Rust variant / constant name   *)
(* and give the number InSim assigns.                                        *)
(*                                                                           *)
(* Values: bytes are 0..255; 32-bit quantities are <<lo16, hi16>> (TLC       *)
(* integers are 32-bit); text is a sequence of code points (ASCII here: the  *)
(* code-page rules live in LfsText); durations are [ms |-> 4 limbs, ns].     *)
(***************************************************************************)
EXTENDS Naturals, Integers, Sequences, FiniteSets, SequencesExt, TLC

----------------------------------------------------------------------------
(* helpers *)
LE(v, w)   == [i \in 1..w |-> (v \div (256 ^ (i - 1))) % 256]
Limbs(p)   == LE(p[1], 2) \o LE(p[2], 2)
Zeros(n)   == [i \in 1..n |-> 0]
PadTo(s, n) == IF Len(s) >= n THEN SubSeq(s, 1, n) ELSE s \o Zeros(n - Len(s))
Signed(v, w) == IF v < 0 THEN v + 256 ^ w ELSE v           \* two's complement image of a small signed integer
RECURSIVE SumNat(_)
SumNat(S) == IF S = {} THEN 0 ELSE LET x == CHOOSE y \in S : TRUE IN x + SumNat(S \ {x})
Mask16(bits) == SumNat({2 ^ b : b \in bits})
\* little-endian image of a set of bit numbers 0..31
BitBytes(bits, w) ==
  IF w <= 2 THEN LE(Mask16(bits), w)
  ELSE LE(Mask16({b \in bits : b < 16}), 2) \o LE(Mask16({b - 16 : b \in {c \in bits : c >= 16}}), 2)
T(n, s) == [i \in 1..n |-> s + ((i - 1) % 26)]               \* recognisable ASCII text of length n

\* ---- durations: 64-bit milliseconds as four 16-bit limbs ------------------
\* value of limbs when it fits 31 bits, else -1
Small31(l) == IF l[3] = 0 /\ l[4] = 0 /\ l[2] < 32768 THEN l[1] + 65536 * l[2] ELSE -1
\* limbs / 10 (long division from the top limb)
Div10(l) ==
  LET q4 == l[4] \div 10  r4 == l[4] % 10
      q3 == (r4 * 65536 + l[3]) \div 10  r3 == (r4 * 65536 + l[3]) % 10
      q2 == (r3 * 65536 + l[2]) \div 10  r2 == (r3 * 65536 + l[2]) % 10
      q1 == (r2 * 65536 + l[1]) \div 10
  IN <<q1, q2, q3, q4>>
\* limbs * 10
Mul10(l) ==
  LET p1 == l[1] * 10  p2 == l[2] * 10 + p1 \div 65536
      p3 == l[3] * 10 + p2 \div 65536  p4 == l[4] * 10 + p3 \div 65536
  IN <<p1 % 65536, p2 % 65536, p3 % 65536, p4 % 65536>>
\* wire units of a duration field (scale 1 = ms, 10 = hundredths), rounded down
Units(d, scale) == IF scale = 10 THEN Div10(d.ms) ELSE d.ms
FitsW(u, w) == IF w = 2 THEN u[2] = 0 /\ u[3] = 0 /\ u[4] = 0 ELSE u[3] = 0 /\ u[4] = 0
DurBytes(d, scale, w) == LET u == Units(d, scale) IN IF w = 2 THEN LE(u[1], 2) ELSE LE(u[1], 2) \o LE(u[2], 2)
\* the duration a wire value stands for
DurOf(lo, hi, scale) == [ms |-> IF scale = 10 THEN Mul10(<<lo, hi, 0, 0>>) ELSE <<lo, hi, 0, 0>>, ns |-> 0]

----------------------------------------------------------------------------
(* enumerant tables: Rust variant name -> InSim number *)
TinyType == [None |-> 0, Ver |-> 1, Close |-> 2, Ping |-> 3, Reply |-> 4, Vtc |-> 5, Scp |-> 6, Sst |-> 7, Gth |-> 8,
             Mpe |-> 9, Ism |-> 10, Ren |-> 11, Clr |-> 12, Ncn |-> 13, Npl |-> 14, Res |-> 15, Nlp |-> 16, Mci |-> 17,
             Reo |-> 18, Rst |-> 19, Axi |-> 20, Axc |-> 21, Rip |-> 22, Nci |-> 23, Alc |-> 24, Axm |-> 25, Slc |-> 26,
             Mal |-> 27, Plh |-> 28, Ipb |-> 29]
RaceInProgressT == [No |-> 0, Racing |-> 1, Qualifying |-> 2]
CameraViewT == [Follow |-> 0, Heli |-> 1, Cam |-> 2, Driver |-> 3, Custom |-> 4, Another |-> 255]
WindT == [None |-> 0, Weak |-> 1, Strong |-> 2]
MsoUserTypeT == [System |-> 0, User |-> 1, Prefix |-> 2, O |-> 3]
SoundTypeT == [Silent |-> 0, Message |-> 1, SysMessage |-> 2, InvalidKey |-> 3, Error |-> 4]
VtnActionT == [None |-> 0, End |-> 1, Restart |-> 2, Qualify |-> 3]
CnlReasonT == [Disco |-> 0, Timeout |-> 1, LostConn |-> 2, Kicked |-> 3, Banned |-> 4, Security |-> 5, Cpw |-> 6,
               Oos |-> 7, Joos |-> 8, Hack |-> 9]
TyreT == [R1 |-> 0, R2 |-> 1, R3 |-> 2, R4 |-> 3, RoadSuper |-> 4, RoadNormal |-> 5, Hybrid |-> 6, Knobbly |-> 7, NoChange |-> 255]
PenaltyT == [None |-> 0, Dt |-> 1, DtValid |-> 2, Sg |-> 3, SgValid |-> 4, Seconds30 |-> 5, Seconds45 |-> 6]
PenaltyReasonT == [Unknown |-> 0, Admin |-> 1, WrongWay |-> 2, FalseStart |-> 3, Speeding |-> 4, StopShort |-> 5, StopLate |-> 6]
PitLaneFactT == [Exit |-> 0, Enter |-> 1, NoPurpose |-> 2, Dt |-> 3, Sg |-> 4]
FlgTypeT == [Blue |-> 1, Yellow |-> 2]
BfnTypeT == [DelBtn |-> 0, Clear |-> 1, UserClear |-> 2, BtnRequest |-> 3]
RipErrorT == [Ok |-> 0, Already |-> 1, Dedicated |-> 2, WrongMode |-> 3, NotReplay |-> 4, Corrupted |-> 5, NotFound |-> 6,
              Unloadable |-> 7, DestOOB |-> 8, Unknown |-> 9, User |-> 10, OOS |-> 11]
SshErrorT == [Ok |-> 0, Dedicated |-> 1, Corrupted |-> 2, NoSave |-> 3]
HlvcT == [Ground |-> 0, Wall |-> 1, Speeding |-> 4, OutOfBounds |-> 5]
PmoActionT == [LoadingFile |-> 0, AddObjects |-> 1, DelObjects |-> 2, ClearAll |-> 3, TinyAxm |-> 4, TtcSel |-> 5,
               Selection |-> 6, Position |-> 7, GetZ |-> 8]
AcrResultT == [Processed |-> 1, Rejected |-> 2, UnknownCommand |-> 3]
LanguageT == [English |-> 0, Deutsch |-> 1, Portuguese |-> 2, French |-> 3, Suomi |-> 4, Norsk |-> 5, Nederlands |-> 6,
              Catalan |-> 7, Turkish |-> 8, Castellano |-> 9, Italiano |-> 10, Dansk |-> 11, Czech |-> 12, Russian |-> 13,
              Estonian |-> 14, Serbian |-> 15, Greek |-> 16, Polski |-> 17, Croatian |-> 18, Hungarian |-> 19,
              Brazilian |-> 20, Swedish |-> 21, Slovak |-> 22, Galego |-> 23, Slovenski |-> 24, Belarussian |-> 25,
              Latvian |-> 26, Lithuanian |-> 27, TraditionalChinese |-> 28, SimplifiedChinese |-> 29, Japanese |-> 30,
              Korean |-> 31, Bulgarian |-> 32, Latino |-> 33, Ukrainian |-> 34, Indonesian |-> 35, Romanian |-> 36]
LicenseT == [Demo |-> 0, S1 |-> 1, S2 |-> 2, S3 |-> 3]
JrrActionT == [Reject |-> 0, Spawn |-> 1, Reset |-> 4, ResetNoRepair |-> 5]
UcoActionT == [CircleEnter |-> 0, CircleLeave |-> 1, CpFwd |-> 2, CpRev |-> 3]
OcoActionT == [LightsReset |-> 4, LightsSet |-> 5, LightsUnset |-> 6]
OcoIndexT == [AxoStartLights1 |-> 149, AxoStartLights2 |-> 150, AxoStartLights3 |-> 151, MainLights |-> 240]
TtcTypeT == [Sel |-> 1, SelStart |-> 2, SelStop |-> 3]
CscActionT == [Stop |-> 0, Start |-> 1]
RelayErrT == [None |-> 0, InvalidPacketLength |-> 1, InvalidPacketType |-> 2, InvalidHostname |-> 3,
              BadAdminPassword |-> 4, BadSpectatorPassword |-> 5, MissingSpectatorPassword |-> 6]
CimNormalT == [Normal |-> 0, WheelTemps |-> 1, WheelDamage |-> 2, LiveSettings |-> 3, PitInstructions |-> 4]
CimGarageT == [Info |-> 0, Colours |-> 1, BrakeTC |-> 2, Susp |-> 3, Steer |-> 4, Drive |-> 5, Tyres |-> 6, Aero |-> 7, Pass |-> 8]
CimShiftUT == [Plain |-> 0, Buttons |-> 1, Edit |-> 2]
CimModeT == [Normal |-> 0, Options |-> 1, HostOptions |-> 2, Garage |-> 3, CarSelect |-> 4, TrackSelect |-> 5, ShiftU |-> 6]
SmallSubT == [None |-> 0, Ssp |-> 1, Ssg |-> 2, Vta |-> 3, Tms |-> 4, Stp |-> 5, Rtp |-> 6, Nli |-> 7, Alc |-> 8, Lcs |-> 9, Lcl |-> 10]

(* flag tables: Rust constant name -> set of bit numbers InSim assigns *)
B1(b) == {b}
IsiFlagsT == [LOCAL |-> B1(2), MSO_COLS |-> B1(3), NLP |-> B1(4), MCI |-> B1(5), CON |-> B1(6), OBH |-> B1(7), HLV |-> B1(8),
              AXM_LOAD |-> B1(9), AXM_EDIT |-> B1(10), REQ_JOIN |-> B1(11)]
StaFlagsT == [GAME |-> B1(0), REPLAY |-> B1(1), PAUSE |-> B1(2), SHIFTU |-> B1(3), DIALOG |-> B1(4), SHIFTU_FOLLOW |-> B1(5),
              SHIFTU_NO_OPT |-> B1(6), SHOW_2D |-> B1(7), FRONT_END |-> B1(8), MULTI |-> B1(9), MPSPEEDUP |-> B1(10),
              WINDOWED |-> B1(11), SOUND_MUTE |-> B1(12), VIEW_OVERRIDE |-> B1(13), VISIBLE |-> B1(14), TEXT_ENTRY |-> B1(15)]
SchFlagsT == [SHIFT |-> B1(0), CTRL |-> B1(1)]
RaceFlagsT == [CAN_VOTE |-> B1(0), CAN_SELECT |-> B1(1), MID_RACE |-> B1(5), MUST_PIT |-> B1(6), CAN_RESET |-> B1(7),
               FCV |-> B1(8), CRUISE |-> B1(9)]
NcnFlagsT == [REMOTE |-> B1(2)]
PlayerFlagsT == [LEFTSIDE |-> B1(0), AUTOGEARS |-> B1(3), SHIFTER |-> B1(4), HELP_B |-> B1(6), AXIS_CLUTCH |-> B1(7),
                 INPITS |-> B1(8), AUTOCLUTCH |-> B1(9), MOUSE |-> B1(10), KB_NO_HELP |-> B1(11), KB_STABILISED |-> B1(12),
                 CUSTOM_VIEW |-> B1(13)]
SetFlagsT == [SYMM_WHEELS |-> B1(0), TC_ENABLE |-> B1(1), ABS_ENABLE |-> B1(2)]
PlayerTypeT == [FEMALE |-> B1(0), AI |-> B1(1), REMOTE |-> B1(2)]
PassengersT == [FRONT_MALE |-> B1(0), FRONT_FEMALE |-> B1(1), REAR_LEFT_MALE |-> B1(2), REAR_LEFT_FEMALE |-> B1(3),
                REAR_MIDDLE_MALE |-> B1(4), REAR_MIDDLE_FEMALE |-> B1(5), REAR_RIGHT_MALE |-> B1(6), REAR_RIGHT_FEMALE |-> B1(7)]
\* InSim: PSE_NOTHING is bit 0, PSE_STOP bit 1, ... PSE_REFUEL bit 17
PitWorkT == [NOTHING |-> B1(0), STOP |-> B1(1), FR_DAM |-> B1(2), FR_WHL |-> B1(3), PSE_LE_FR_DAM |-> B1(4), PSE_LE_FR_WHL |-> B1(5),
             PSE_RI_FR_DAM |-> B1(6), PSE_RI_FR_WHL |-> B1(7), PSE_RE_DAM |-> B1(8), PSE_RE_WHL |-> B1(9),
             PSE_LE_RE_DAM |-> B1(10), PSE_LE_RE_WHL |-> B1(11), PSE_RI_RE_DAM |-> B1(12), PSE_RI_RE_WHL |-> B1(13),
             PSE_BODY_MINOR |-> B1(14), PSE_BODY_MAJOR |-> B1(15), PSE_SETUP |-> B1(16), PSE_REFUEL |-> B1(17)]
ConfirmT == [MENTIONED |-> B1(0), CONFIRMED |-> B1(1), PENALTY_DT |-> B1(2), PENALTY_SG |-> B1(3), PENALTY_30 |-> B1(4),
             PENALTY_45 |-> B1(5), DID_NOT_PIT |-> B1(6)]
CompCarInfoT == [BLUE |-> B1(0), YELLOW |-> B1(1), LAG |-> B1(5), FIRST |-> B1(6), LAST |-> B1(7)]
BtnInstT == [ALWAYSON |-> B1(7)]
BtnStyleT == [C1 |-> B1(0), C2 |-> B1(1), C4 |-> B1(2), CLICK |-> B1(3), LIGHT |-> B1(4), DARK |-> B1(5), LEFT |-> B1(6), RIGHT |-> B1(7)]
BtnClickT == [LMB |-> B1(0), RMB |-> B1(1), CTRL |-> B1(2), SHIFT |-> B1(3)]
RipOptionsT == [LOOP |-> B1(0), SKINS |-> B1(1), FULL_PHYS |-> B1(2)]
ObhFlagsT == [LAYOUT |-> B1(0), CAN_MOVE |-> B1(1), WAS_MOVING |-> B1(2), ON_SPOT |-> B1(3)]
PmoFlagsT == [FILE_END |-> B1(0), MOVE_MODIFY |-> B1(1), SELECTION_REAL |-> B1(2), AVOID_CHECK |-> B1(3)]
OcoLightsT == [RED1 |-> B1(0), RED2 |-> B1(1), RED3 |-> B1(2), GREEN |-> B1(3)]
PlhFlagsT == [MASS |-> B1(0), TRES |-> B1(1), SILENT |-> B1(7)]
HostInfoFlagsT == [SPECTATE_PASSWORD_REQUIRED |-> B1(0), LICENSED |-> B1(1), S1 |-> B1(2), S2 |-> B1(3), FIRST |-> B1(6), LAST |-> B1(7)]
LcsFlagsT == [SET_SIGNALS |-> {0}, SET_FLASH |-> {1}, SET_HEADLIGHTS |-> {2}, SET_HORN |-> {3}, SET_SIREN |-> {4},
              SIGNAL_OFF |-> {0}, SIGNAL_LEFT |-> {0, 8}, SIGNAL_RIGHT |-> {0, 9}, SIGNAL_HAZARD |-> {0, 8, 9},
              FLASH_OFF |-> {1}, FLASH_ON |-> {1, 10}, HEADLIGHTS_OFF |-> {2}, HEADLIGHTS_ON |-> {2, 11},
              HORN_OFF |-> {3}, HORN_1 |-> {3, 16}, HORN_2 |-> {3, 17}, HORN_3 |-> {3, 16, 17}, HORN_4 |-> {3, 18},
              HORN_5 |-> {3, 16, 18}, SIREN_OFF |-> {4}, SIREN_FAST |-> {4, 20}, SIREN_SLOW |-> {4, 21}]
\* InSim: LCL_SET_EXTRA is 0x40 and the extra-light value is bit 22
LclFlagsT == [SET_SIGNALS |-> {0}, SET_LIGHTS |-> {2}, SET_FOG_REAR |-> {4}, SET_FOG_FRONT |-> {5}, SET_EXTRA |-> {6},
              SIGNAL_OFF |-> {0}, SIGNAL_LEFT |-> {0, 16}, SIGNAL_RIGHT |-> {0, 17}, SIGNAL_HAZARD |-> {0, 16, 17},
              LIGHT_OFF |-> {2}, LIGHT_SIDE |-> {2, 18}, LIGHT_LOW |-> {2, 19}, LIGHT_HIGH |-> {2, 18, 19},
              FOG_REAR_OFF |-> {4}, FOG_REAR |-> {4, 20}, FOG_FRONT_OFF |-> {5}, FOG_FRONT |-> {5, 21},
              EXTRA_OFF |-> {6}, EXTRA |-> {6, 22}]
\* InSim: XF GTI is 1, XR GT 2, ... FORMULA BMW FB02 0x80000
PlcCarsT == [XFG |-> B1(0), XRG |-> B1(1), XRT |-> B1(2), RB4 |-> B1(3), FXO |-> B1(4), LX4 |-> B1(5), LX6 |-> B1(6),
             MRT |-> B1(7), UF1 |-> B1(8), RAC |-> B1(9), FZ5 |-> B1(10), FOX |-> B1(11), XFR |-> B1(12), UFR |-> B1(13),
             FO8 |-> B1(14), FXR |-> B1(15), XRR |-> B1(16), FZR |-> B1(17), BF1 |-> B1(18), FBM |-> B1(19)]

\* flag values are sequences of constant names (JSON arrays); order and repetition are irrelevant
FlagBits(names, table) == UNION {table[names[i]] : i \in DOMAIN names}

----------------------------------------------------------------------------
(* field descriptors *)
U8(n)   == [k |-> "u", name |-> n, w |-> 1]
U16(n)  == [k |-> "u", name |-> n, w |-> 2]
I8(n)   == [k |-> "i", name |-> n, w |-> 1]
I16(n)  == [k |-> "i", name |-> n, w |-> 2]
W32(n)  == [k |-> "w32", name |-> n, w |-> 4]                       \* u32 / i32 / f32 bits as <<lo, hi>>
P(w)    == [k |-> "pad", name |-> "", w |-> w]
Bo(n)   == [k |-> "bool", name |-> n, w |-> 1]
Ch(n)   == [k |-> "char", name |-> n, w |-> 1]
En(n, t) == [k |-> "enum", name |-> n, w |-> 1, table |-> t]
Fl(n, w, t) == [k |-> "flags", name |-> n, w |-> w, table |-> t]
S(n, N) == [k |-> "str", name |-> n, w |-> N]                       \* fixed-width text, NUL padded
RS(n, N) == [k |-> "rstr", name |-> n, w |-> N]                     \* ... sent as it is (UTF-8), not through LFS's code pages
VS(n, max) == [k |-> "vstr", name |-> n, w |-> 0, max |-> max, nul |-> FALSE]     \* variable text, NUL padded to a multiple of 4
VSN(n, max) == [k |-> "vstr", name |-> n, w |-> 0, max |-> max, nul |-> TRUE]     \* ... of which the last byte must be NUL (IS_MTC)
DurMs(n, w) == [k |-> "dur", name |-> n, w |-> w, scale |-> 1]
DurCs(n, w) == [k |-> "dur", name |-> n, w |-> w, scale |-> 10]
RL(n)   == [k |-> "racelaps", name |-> n, w |-> 1]
Fu(n)   == [k |-> "fuel", name |-> n, w |-> 1]
Veh(n)  == [k |-> "vehicle", name |-> n, w |-> 4]
Trk(n)  == [k |-> "track", name |-> n, w |-> 6]
GV(n)   == [k |-> "str", name |-> n, w |-> 8]                       \* the 8-byte game version text
Ip(n)   == [k |-> "bytes", name |-> n, w |-> 4]
Nib(hi, lo) == [k |-> "nib", name |-> hi, lo |-> lo, w |-> 1]       \* two 4-bit fields in one byte
NibHi(n) == [k |-> "nibhi", name |-> n, w |-> 1]                    \* high nibble, low nibble spare
Sp12(n) == [k |-> "u", name |-> n, w |-> 2]                         \* SpClose: low 12 bits
St(n, fs, w) == [k |-> "struct", name |-> n, sub |-> fs, w |-> w]
Arr(n, cnt, fs, ew) == [k |-> "arr", name |-> n, sub |-> fs, w |-> cnt * ew, cnt |-> cnt]   \* fixed array of structs
ArrEn(n, cnt, t) == [k |-> "arren", name |-> n, table |-> t, w |-> cnt, cnt |-> cnt]
ArrU8(n, cnt) == [k |-> "arru8", name |-> n, w |-> cnt, cnt |-> cnt]
Cnt(n)  == [k |-> "count", name |-> n, w |-> 1]                     \* number of elements of the vector field n
Vec(n, fs, ew, pmax) == [k |-> "vec", name |-> n, sub |-> fs, w |-> 0, ew |-> ew, pmax |-> pmax]   \* pmax: protocol maximum
VecW32(n, pmax) == [k |-> "vecw32", name |-> n, w |-> 0, ew |-> 4, pmax |-> pmax]
VecIp(n, pmax) == [k |-> "vecip", name |-> n, w |-> 0, ew |-> 4, pmax |-> pmax]
Al4     == [k |-> "align4", name |-> "", w |-> 0]
SmallU(n) == [k |-> "small", name |-> n, w |-> 5]
CimU(n) == [k |-> "cim", name |-> n, w |-> 3]
Cars(n) == [k |-> "cars", name |-> n, w |-> 4]

Pt32 == <<W32("x"), W32("y"), W32("z")>>
CompCarF == <<U16("node"), U16("lap"), U8("plid"), U8("position"), Fl("info", 1, CompCarInfoT), P(1),
              St("xyz", Pt32, 12), U16("speed"), U16("direction"), U16("heading"), I16("angvel")>>
NodeLapF == <<U16("node"), U16("lap"), U8("plid"), U8("position")>>
CarContactF == <<U8("direction"), U8("heading"), U8("speed"), U8("z"), I16("x"), I16("y")>>
ObjectInfoF == <<I16("x"), I16("y"), U8("z"), U8("flags"), U8("index"), U8("heading")>>
ConInfoF == <<U8("plid"), Fl("info", 1, CompCarInfoT), P(1), U8("steer"), Nib("thr", "brk"), Nib("clu", "han"),
              NibHi("gearsp"), U8("speed"), U8("direction"), U8("heading"), U8("accelf"), U8("accelr"), I16("x"), I16("y")>>
HcpF == <<U8("h_mass"), U8("h_tres")>>
PlhF == <<U8("plid"), Fl("flags", 1, PlhFlagsT), U8("h_mass"), U8("h_tres")>>
HostInfoF == <<S("hname", 32), Trk("track"), Fl("flags", 1, HostInfoFlagsT), U8("numconns")>>

R == U8("reqi")
Layout == [
  Isi |-> [type |-> 1, size |-> 44, fields |-> <<R, P(1), U16("udpport"), Fl("flags", 2, IsiFlagsT), U8("version"), Ch("prefix"),
            DurMs("interval", 2), RS("admin", 16), S("iname", 16)>>],
  Ver |-> [type |-> 2, size |-> 20, fields |-> <<R, P(1), GV("version"), S("product", 6), U8("insimver"), P(1)>>],
  Tiny |-> [type |-> 3, size |-> 4, fields |-> <<R, En("subt", TinyType)>>],
  Small |-> [type |-> 4, size |-> 8, fields |-> <<R, SmallU("subt")>>],
  Sta |-> [type |-> 5, size |-> 28, fields |-> <<R, P(1), W32("replayspeed"), Fl("flags", 2, StaFlagsT), En("ingamecam", CameraViewT),
            U8("viewplid"), U8("nump"), U8("numconns"), U8("numfinished"), En("raceinprog", RaceInProgressT), U8("qualmins"),
            RL("racelaps"), P(1), U8("serverstatus"), Trk("track"), U8("weather"), En("wind", WindT)>>],
  Sch |-> [type |-> 6, size |-> 8, fields |-> <<R, P(1), Ch("charb"), Fl("flags", 1, SchFlagsT), P(2)>>],
  Sfp |-> [type |-> 7, size |-> 8, fields |-> <<R, P(1), Fl("flag", 2, StaFlagsT), Bo("onoff"), P(1)>>],
  Scc |-> [type |-> 8, size |-> 8, fields |-> <<R, P(1), U8("viewplid"), En("ingamecam", CameraViewT), P(2)>>],
  Cpp |-> [type |-> 9, size |-> 32, fields |-> <<R, P(1), St("pos", Pt32, 12), U16("h"), U16("p"), U16("r"), U8("viewplid"),
            En("ingamecam", CameraViewT), W32("fov"), DurMs("time", 2), Fl("flags", 2, StaFlagsT)>>],
  Ism |-> [type |-> 10, size |-> 40, fields |-> <<R, P(1), Bo("host"), P(3), S("hname", 32)>>],
  Mso |-> [type |-> 11, size |-> 0, fields |-> <<R, P(1), U8("ucid"), U8("plid"), En("usertype", MsoUserTypeT), U8("textstart"), VS("msg", 128)>>],
  Iii |-> [type |-> 12, size |-> 0, fields |-> <<R, P(1), U8("ucid"), U8("plid"), P(2), VS("msg", 64)>>],
  Mst |-> [type |-> 13, size |-> 68, fields |-> <<R, P(1), S("msg", 64)>>],
  Mtc |-> [type |-> 14, size |-> 0, fields |-> <<R, En("sound", SoundTypeT), U8("ucid"), U8("plid"), P(2), VSN("text", 128)>>],
  Mod |-> [type |-> 15, size |-> 20, fields |-> <<R, P(1), W32("bit16"), W32("rr"), W32("width"), W32("height")>>],
  Vtn |-> [type |-> 16, size |-> 8, fields |-> <<R, P(1), U8("ucid"), En("action", VtnActionT), P(2)>>],
  Rst |-> [type |-> 17, size |-> 28, fields |-> <<R, P(1), RL("racelaps"), U8("qualmins"), U8("nump"), U8("timing"), Trk("track"),
            U8("weather"), En("wind", WindT), Fl("flags", 2, RaceFlagsT), U16("numnodes"), U16("finish"), U16("split1"),
            U16("split2"), U16("split3")>>],
  Ncn |-> [type |-> 18, size |-> 56, fields |-> <<R, U8("ucid"), S("uname", 24), S("pname", 24), Bo("admin"), U8("total"),
            Fl("flags", 1, NcnFlagsT), P(1)>>],
  Cnl |-> [type |-> 19, size |-> 8, fields |-> <<R, U8("ucid"), En("reason", CnlReasonT), U8("total"), P(2)>>],
  Cpr |-> [type |-> 20, size |-> 36, fields |-> <<R, U8("ucid"), S("pname", 24), S("plate", 8)>>],
  Npl |-> [type |-> 21, size |-> 76, fields |-> <<R, U8("plid"), U8("ucid"), Fl("ptype", 1, PlayerTypeT), Fl("flags", 2, PlayerFlagsT),
            S("pname", 24), S("plate", 8), Veh("cname"), S("sname", 16), ArrEn("tyres", 4, TyreT), U8("h_mass"), U8("h_tres"),
            U8("model"), Fl("pass", 1, PassengersT), U8("rwadj"), U8("fwadj"), P(2), Fl("setf", 1, SetFlagsT), U8("nump"),
            U8("config"), Fu("fuel")>>],
  Plp |-> [type |-> 22, size |-> 4, fields |-> <<R, U8("plid")>>],
  Pll |-> [type |-> 23, size |-> 4, fields |-> <<R, U8("plid")>>],
  Lap |-> [type |-> 24, size |-> 20, fields |-> <<R, U8("plid"), DurMs("ltime", 4), DurMs("etime", 4), U16("lapsdone"),
            Fl("flags", 2, PlayerFlagsT), P(1), En("penalty", PenaltyT), U8("numstops"), Fu("fuel200")>>],
  Spx |-> [type |-> 25, size |-> 16, fields |-> <<R, U8("plid"), DurMs("stime", 4), DurMs("etime", 4), U8("split"),
            En("penalty", PenaltyT), U8("numstops"), Fu("fuel200")>>],
  Pit |-> [type |-> 26, size |-> 24, fields |-> <<R, U8("plid"), U16("lapsdone"), Fl("flags", 2, PlayerFlagsT), Fu("fueladd"),
            En("penalty", PenaltyT), U8("numstops"), P(1), ArrEn("tyres", 4, TyreT), Fl("work", 4, PitWorkT), P(4)>>],
  Psf |-> [type |-> 27, size |-> 12, fields |-> <<R, U8("plid"), DurMs("stime", 4), P(4)>>],
  Pla |-> [type |-> 28, size |-> 8, fields |-> <<R, U8("plid"), En("fact", PitLaneFactT), P(3)>>],
  Cch |-> [type |-> 29, size |-> 8, fields |-> <<R, U8("plid"), En("camera", CameraViewT), P(3)>>],
  Pen |-> [type |-> 30, size |-> 8, fields |-> <<R, U8("plid"), En("oldpen", PenaltyT), En("newpen", PenaltyT),
            En("reason", PenaltyReasonT), P(1)>>],
  Toc |-> [type |-> 31, size |-> 8, fields |-> <<R, U8("plid"), U8("olducid"), U8("newucid"), P(2)>>],
  Flg |-> [type |-> 32, size |-> 8, fields |-> <<R, U8("plid"), Bo("offon"), En("flag", FlgTypeT), U8("carbehind"), P(1)>>],
  Pfl |-> [type |-> 33, size |-> 8, fields |-> <<R, U8("plid"), Fl("flags", 2, PlayerFlagsT), P(2)>>],
  Fin |-> [type |-> 34, size |-> 20, fields |-> <<R, U8("plid"), DurMs("ttime", 4), DurMs("btime", 4), P(1), U8("numstops"),
            Fl("confirm", 1, ConfirmT), P(1), U16("lapsdone"), Fl("flags", 2, PlayerFlagsT)>>],
  Res |-> [type |-> 35, size |-> 84, fields |-> <<R, U8("plid"), S("uname", 24), S("pname", 24), S("plate", 8), Veh("cname"),
            DurMs("ttime", 4), DurMs("btime", 4), P(1), U8("numstops"), Fl("confirm", 1, ConfirmT), P(1), U16("lapsdone"),
            Fl("flags", 2, PlayerFlagsT), U8("resultnum"), U8("numres"), U16("pseconds")>>],
  Reo |-> [type |-> 36, size |-> 44, fields |-> <<R, U8("nump"), ArrU8("plid", 40)>>],
  Nlp |-> [type |-> 37, size |-> 0, fields |-> <<R, Cnt("info"), Vec("info", NodeLapF, 6, 40), Al4>>],
  Mci |-> [type |-> 38, size |-> 0, fields |-> <<R, Cnt("info"), Vec("info", CompCarF, 28, 16)>>],
  Msx |-> [type |-> 39, size |-> 100, fields |-> <<R, P(1), S("msg", 96)>>],
  Msl |-> [type |-> 40, size |-> 132, fields |-> <<R, En("sound", SoundTypeT), S("msg", 128)>>],
  Crs |-> [type |-> 41, size |-> 4, fields |-> <<R, U8("plid")>>],
  Bfn |-> [type |-> 42, size |-> 8, fields |-> <<R, En("subt", BfnTypeT), U8("ucid"), U8("clickid"), U8("clickmax"), Fl("inst", 1, BtnInstT)>>],
  Axi |-> [type |-> 43, size |-> 40, fields |-> <<R, P(1), U8("axstart"), U8("numcp"), U16("numo"), S("lname", 32)>>],
  Axo |-> [type |-> 44, size |-> 4, fields |-> <<R, U8("plid")>>],
  Btn |-> [type |-> 45, size |-> 0, fields |-> <<R, U8("ucid"), U8("clickid"), Fl("inst", 1, BtnInstT), Fl("bstyle", 1, BtnStyleT),
            U8("typein"), U8("l"), U8("t"), U8("w"), U8("h"), VS("text", 240)>>],
  Btc |-> [type |-> 46, size |-> 8, fields |-> <<R, U8("ucid"), U8("clickid"), Fl("inst", 1, BtnInstT), Fl("cflags", 1, BtnClickT), P(1)>>],
  Btt |-> [type |-> 47, size |-> 104, fields |-> <<R, U8("ucid"), U8("clickid"), Fl("inst", 1, BtnInstT), U8("typein"), P(1), S("text", 96)>>],
  Rip |-> [type |-> 48, size |-> 80, fields |-> <<R, En("error", RipErrorT), Bo("mpr"), Bo("paused"), Fl("options", 1, RipOptionsT),
            P(1), DurMs("ctime", 4), DurMs("ttime", 4), S("rname", 64)>>],
  Ssh |-> [type |-> 49, size |-> 40, fields |-> <<R, En("error", SshErrorT), P(4), S("name", 32)>>],
  Con |-> [type |-> 50, size |-> 40, fields |-> <<R, P(1), Sp12("spclose"), DurCs("time", 2), St("a", ConInfoF, 16), St("b", ConInfoF, 16)>>],
  Obh |-> [type |-> 51, size |-> 24, fields |-> <<R, U8("plid"), Sp12("spclose"), DurCs("time", 2), St("c", CarContactF, 8),
            I16("x"), I16("y"), U8("zbyte"), P(1), U8("index"), Fl("flags", 1, ObhFlagsT)>>],
  Hlv |-> [type |-> 52, size |-> 16, fields |-> <<R, U8("plid"), En("hlvc", HlvcT), P(1), DurCs("time", 2), St("c", CarContactF, 8)>>],
  Plc |-> [type |-> 53, size |-> 12, fields |-> <<R, P(1), U8("ucid"), P(3), Cars("cars")>>],
  Axm |-> [type |-> 54, size |-> 0, fields |-> <<R, Cnt("info"), U8("ucid"), En("pmoaction", PmoActionT), Fl("pmoflags", 1, PmoFlagsT),
            P(1), Vec("info", ObjectInfoF, 8, 60)>>],
  Acr |-> [type |-> 55, size |-> 0, fields |-> <<R, P(1), U8("ucid"), Bo("admin"), En("result", AcrResultT), P(1), VS("text", 64)>>],
  Hcp |-> [type |-> 56, size |-> 68, fields |-> <<R, P(1), Arr("info", 32, HcpF, 2)>>],
  Nci |-> [type |-> 57, size |-> 16, fields |-> <<R, U8("ucid"), En("language", LanguageT), En("license", LicenseT), P(2),
            W32("userid"), Ip("ipaddress")>>],
  Jrr |-> [type |-> 58, size |-> 16, fields |-> <<R, U8("plid"), U8("ucid"), En("jrraction", JrrActionT), P(2), St("startpos", ObjectInfoF, 8)>>],
  Uco |-> [type |-> 59, size |-> 28, fields |-> <<R, U8("plid"), P(1), En("ucoaction", UcoActionT), P(2), DurCs("time", 4),
            St("c", CarContactF, 8), St("info", ObjectInfoF, 8)>>],
  Oco |-> [type |-> 60, size |-> 8, fields |-> <<R, P(1), En("ocoaction", OcoActionT), En("index", OcoIndexT), U8("identifier"),
            Fl("data", 1, OcoLightsT)>>],
  Ttc |-> [type |-> 61, size |-> 8, fields |-> <<R, En("subt", TtcTypeT), U8("ucid"), U8("b1"), U8("b2"), U8("b3")>>],
  Slc |-> [type |-> 62, size |-> 8, fields |-> <<R, U8("ucid"), Veh("cname")>>],
  Csc |-> [type |-> 63, size |-> 20, fields |-> <<R, U8("plid"), P(1), En("cscaction", CscActionT), P(2), DurCs("time", 4), St("c", CarContactF, 8)>>],
  Cim |-> [type |-> 64, size |-> 8, fields |-> <<R, U8("ucid"), CimU("mode"), P(1)>>],
  Mal |-> [type |-> 65, size |-> 0, fields |-> <<R, Cnt("allowed_mods"), U8("ucid"), P(3), VecW32("allowed_mods", 120)>>],
  Plh |-> [type |-> 66, size |-> 0, fields |-> <<R, Cnt("hcaps"), Vec("hcaps", PlhF, 4, 40)>>],
  Ipb |-> [type |-> 67, size |-> 0, fields |-> <<R, Cnt("banips"), P(4), VecIp("banips", 120)>>],
  RelayArq |-> [type |-> 250, size |-> 4, fields |-> <<R, P(1)>>],
  RelayArp |-> [type |-> 251, size |-> 4, fields |-> <<R, Bo("admin")>>],
  RelayHlr |-> [type |-> 252, size |-> 4, fields |-> <<R, P(1)>>],
  RelayHos |-> [type |-> 253, size |-> 0, fields |-> <<R, Cnt("hinfo"), Vec("hinfo", HostInfoF, 40, 6)>>],
  RelaySel |-> [type |-> 254, size |-> 68, fields |-> <<R, P(1), S("hname", 32), S("admin", 16), S("spec", 16)>>],
  RelayErr |-> [type |-> 255, size |-> 4, fields |-> <<R, En("err", RelayErrT)>>]
]
Kinds == DOMAIN Layout

----------------------------------------------------------------------------
(* the reference encoder *)
VehBytes(v) == CASE v.k = "std" -> PadTo(v.name, 3) \o <<0>>
                 [] v.k = "mod" -> Limbs(v.id)
                 [] OTHER -> <<0, 0, 0, 0>>
FuelByte(f) == IF f.k = "No" THEN 255 ELSE f.v
\* InSim: 0 practice; 1-99 laps; 100-190 -> (n-100)*10+100 laps; 191-238 -> n-190 hours
RaceLapsOk(r) == \/ r.k = "Practice"
                 \/ (r.k = "Laps" /\ (r.v \in 1..99 \/ (r.v \in 100..1000 /\ r.v % 10 = 0)))
                 \/ (r.k = "Hours" /\ r.v \in 1..48)
RaceLapsByte(r) == CASE r.k = "Practice" -> 0
                     [] r.k = "Laps" -> IF r.v <= 99 THEN r.v ELSE (r.v - 100) \div 10 + 100
                     [] OTHER -> r.v + 190
RaceLapsOf(b) == IF b = 0 \/ b > 238 THEN [k |-> "Practice", v |-> 0]
                 ELSE IF b <= 99 THEN [k |-> "Laps", v |-> b]
                 ELSE IF b <= 190 THEN [k |-> "Laps", v |-> (b - 100) * 10 + 100]
                 ELSE [k |-> "Hours", v |-> b - 190]

SmallBytes(s) ==
  CASE s.k = "None" -> <<0, 0, 0, 0, 0>>
    [] s.k \in {"Ssp", "Ssg", "Stp", "Rtp"} -> <<SmallSubT[s.k]>> \o DurBytes(s.dur, 10, 4)
    [] s.k = "Nli" -> <<7>> \o DurBytes(s.dur, 1, 4)
    [] s.k = "Vta" -> <<3, VtnActionT[s.vta], 0, 0, 0>>
    [] s.k = "Tms" -> <<4, IF s.tms THEN 1 ELSE 0, 0, 0, 0>>
    [] s.k = "Alc" -> <<8>> \o BitBytes(FlagBits(s.cars, PlcCarsT), 4)
    [] s.k = "Lcs" -> <<9>> \o BitBytes(FlagBits(s.flags, LcsFlagsT), 4)
    [] OTHER -> <<10>> \o BitBytes(FlagBits(s.flags, LclFlagsT), 4)
SmallOk(s) == CASE s.k \in {"Ssp", "Ssg", "Stp", "Rtp"} -> FitsW(Units(s.dur, 10), 4)
                [] s.k = "Nli" -> FitsW(s.dur.ms, 4)
                [] OTHER -> TRUE

CimBytes(m) ==
  CASE m.k = "Normal" -> <<0, CimNormalT[m.sub], 0>>
    [] m.k = "Garage" -> <<3, CimGarageT[m.sub], 0>>
    [] m.k = "ShiftU" -> <<6, CimShiftUT[m.sub], m.seltype>>
    [] OTHER -> <<CimModeT[m.k], 0, 0>>

RECURSIVE EncFields(_, _, _, _), EncField(_, _, _)
\* UTF-8 of a sequence of code points (up to U+FFFF)
Utf8Of(c) == IF c < 128 THEN <<c>>
             ELSE IF c < 2048 THEN <<192 + (c \div 64), 128 + (c % 64)>>
             ELSE <<224 + (c \div 4096), 128 + ((c \div 64) % 64), 128 + (c % 64)>>
Utf8(t) == FlattenSeq([i \in 1..Len(t) |-> Utf8Of(t[i])])

\* bytes of one field; `pos` = number of frame bytes before it (size byte included)
EncField(f, rec, pos) ==
  CASE f.k = "u"      -> LE(rec[f.name], f.w)
    [] f.k = "i"      -> LE(Signed(rec[f.name], f.w), f.w)
    [] f.k = "w32"    -> Limbs(rec[f.name])
    [] f.k = "pad"    -> Zeros(f.w)
    [] f.k = "bool"   -> <<IF rec[f.name] THEN 1 ELSE 0>>
    [] f.k = "char"   -> <<rec[f.name]>>
    [] f.k = "enum"   -> <<f.table[rec[f.name]]>>
    [] f.k = "flags"  -> BitBytes(FlagBits(rec[f.name], f.table), f.w)
    [] f.k = "str"    -> PadTo(rec[f.name], f.w)
    [] f.k = "rstr"   -> PadTo(Utf8(rec[f.name]), f.w)
    [] f.k = "vstr"   -> LET t == IF f.nul /\ Len(rec[f.name]) > f.max - 1 THEN SubSeq(rec[f.name], 1, f.max - 1) ELSE rec[f.name]
                             n == Len(t)  r == IF f.nul THEN ((n + 4) \div 4) * 4 ELSE ((n + 3) \div 4) * 4
                         IN PadTo(t, IF r > f.max THEN f.max ELSE r)
    [] f.k = "dur"    -> DurBytes(rec[f.name], f.scale, f.w)
    [] f.k = "racelaps" -> <<RaceLapsByte(rec[f.name])>>
    [] f.k = "fuel"   -> <<FuelByte(rec[f.name])>>
    [] f.k = "vehicle" -> VehBytes(rec[f.name])
    [] f.k = "track"  -> PadTo(rec[f.name], 6)
    [] f.k = "bytes"  -> rec[f.name]
    [] f.k = "nib"    -> <<16 * rec[f.name] + rec[f.lo]>>
    [] f.k = "nibhi"  -> <<16 * rec[f.name]>>
    [] f.k = "struct" -> EncFields(f.sub, 1, rec[f.name], <<>>)
    [] f.k = "arr"    -> FlattenSeq([i \in 1..Len(rec[f.name]) |-> EncFields(f.sub, 1, rec[f.name][i], <<>>)])
    [] f.k = "arren"  -> [i \in 1..Len(rec[f.name]) |-> f.table[rec[f.name][i]]]
    [] f.k = "arru8"  -> rec[f.name]
    [] f.k = "count"  -> <<Len(rec[f.name]) % 256>>
    [] f.k = "vec"    -> FlattenSeq([i \in 1..Len(rec[f.name]) |-> EncFields(f.sub, 1, rec[f.name][i], <<>>)])
    [] f.k = "vecw32" -> FlattenSeq([i \in 1..Len(rec[f.name]) |-> Limbs(rec[f.name][i])])
    [] f.k = "vecip"  -> FlattenSeq([i \in 1..Len(rec[f.name]) |-> rec[f.name][i]])
    [] f.k = "align4" -> Zeros((4 - (pos % 4)) % 4)
    [] f.k = "small"  -> SmallBytes(rec[f.name])
    [] f.k = "cim"    -> CimBytes(rec[f.name])
    [] f.k = "cars"   -> BitBytes(FlagBits(rec[f.name], PlcCarsT), 4)
EncFields(fs, i, rec, acc) == IF i > Len(fs) THEN acc ELSE EncFields(fs, i + 1, rec, acc \o EncField(fs[i], rec, Len(acc)))

Body(kind, rec) == EncFields(Layout[kind].fields, 1, rec, <<0, Layout[kind].type>>)
FrameLen(kind, rec) == Len(Body(kind, rec))
MaxLenOf(mode) == IF mode = "C" THEN 1020 ELSE 255
SpecEncode(kind, rec, mode) ==
  LET b == Body(kind, rec)  n == Len(b) IN [b EXCEPT ![1] = IF mode = "C" THEN n \div 4 ELSE n]

\* is every value of the record inside what its wire field can carry ?
RECURSIVE FieldsOk(_, _, _)
FieldOk(f, rec) ==
  CASE f.k = "u"      -> rec[f.name] \in 0..(256 ^ f.w - 1)
    [] f.k = "i"      -> rec[f.name] \in (-(256 ^ f.w) \div 2)..((256 ^ f.w) \div 2 - 1)
    [] f.k = "char"   -> rec[f.name] >= 0            \* (a character beyond one byte: see WideChar)
    [] f.k = "dur"    -> FitsW(Units(rec[f.name], f.scale), f.w)
    [] f.k = "racelaps" -> RaceLapsOk(rec[f.name])
    [] f.k = "nib"    -> rec[f.name] \in 0..15 /\ rec[f.lo] \in 0..15
    [] f.k = "nibhi"  -> rec[f.name] \in 0..15
    [] f.k = "struct" -> FieldsOk(f.sub, 1, rec[f.name])
    [] f.k = "arr"    -> \A i \in 1..Len(rec[f.name]) : FieldsOk(f.sub, 1, rec[f.name][i])
    [] f.k = "vec"    -> \A i \in 1..Len(rec[f.name]) : FieldsOk(f.sub, 1, rec[f.name][i])
    [] f.k = "count"  -> Len(rec[f.name]) <= 255
    [] f.k = "small"  -> SmallOk(rec[f.name])
    [] OTHER -> TRUE
FieldsOk(fs, i, rec) == IF i > Len(fs) THEN TRUE ELSE FieldOk(fs[i], rec) /\ FieldsOk(fs, i + 1, rec)

\* what a reader of the frame must find in a time field: the duration its wire value stands for (whole wire units)
DurFieldOf(kind, name) == LET fs == Layout[kind].fields IN fs[CHOOSE i \in 1..Len(fs) : fs[i].k = "dur" /\ fs[i].name = name]
DurReread(kind, rec, name) == LET f == DurFieldOf(kind, name)  u == Units(rec[name], f.scale) IN DurOf(u[1], u[2], f.scale)

\* more elements than the protocol allows in one packet: an implementation may refuse such a packet
OverProtocolMax(kind, rec) == \E i \in 1..Len(Layout[kind].fields) :
   LET f == Layout[kind].fields[i] IN f.k \in {"vec", "vecw32", "vecip"} /\ Len(rec[f.name]) > f.pmax

\* a one-byte character field (IS_SCH CharB, IS_ISI Prefix) given a character that does not fit one byte: the protocol has no
\* representation for it; an implementation may refuse it or send some one-byte stand-in, but what it sends is still ONE
\* well-formed frame of that kind ("lossy": only the frame laws are checked, not the bytes)
WideChar(kind, rec) == \E i \in 1..Len(Layout[kind].fields) :
   LET f == Layout[kind].fields[i] IN f.k = "char" /\ rec[f.name] > 255

\* C03: a packet is either emitted as one well-formed frame or refused
EncodeOutcome(kind, rec, mode) ==
  IF ~FieldsOk(Layout[kind].fields, 1, rec) THEN "refused"
  ELSE LET n == FrameLen(kind, rec) IN
       IF n % 4 = 0 /\ n >= 4 /\ n <= MaxLenOf(mode)
       THEN (IF OverProtocolMax(kind, rec) THEN "any" ELSE IF WideChar(kind, rec) THEN "lossy" ELSE "ok") ELSE "refused"

----------------------------------------------------------------------------
(* static checks TLC performs on the table itself *)
RECURSIVE FixedLen(_, _)
FixedLen(fs, i) == IF i > Len(fs) THEN 0 ELSE fs[i].w + FixedLen(fs, i + 1)
ASSUME \A kd \in Kinds : Layout[kd].size # 0 => 2 + FixedLen(Layout[kd].fields, 1) = Layout[kd].size
ASSUME \A kd \in Kinds : Layout[kd].size % 4 = 0
ASSUME \A a, b \in Kinds : a # b => Layout[a].type # Layout[b].type
ASSUME Cardinality(Kinds) = 73
ASSUME FixedLen(CompCarF, 1) = 28 /\ FixedLen(NodeLapF, 1) = 6 /\ FixedLen(ConInfoF, 1) = 16 /\ FixedLen(CarContactF, 1) = 8
ASSUME FixedLen(ObjectInfoF, 1) = 8 /\ FixedLen(HostInfoF, 1) = 40 /\ FixedLen(PlhF, 1) = 4
\* every single-bit flag table is injective
SingleBitTables == <<IsiFlagsT, StaFlagsT, SchFlagsT, RaceFlagsT, PlayerFlagsT, SetFlagsT, PlayerTypeT, PassengersT, PitWorkT,
                     ConfirmT, CompCarInfoT, BtnStyleT, BtnClickT, RipOptionsT, ObhFlagsT, PmoFlagsT, OcoLightsT, PlhFlagsT,
                     HostInfoFlagsT, PlcCarsT>>
ASSUME \A i \in 1..Len(SingleBitTables) : \A a, b \in DOMAIN SingleBitTables[i] :
          a # b => SingleBitTables[i][a] # SingleBitTables[i][b]
=============================================================================
