SPECIFICATION Spec
CONSTANTS
  MaxFrames = 3
  Lens <- L48
  Classes <- ClsSmall
  Cap = 12
  MaxDgram = 8
  Transports <- TStream
  Flavors <- OnlyTokio
  Verifies <- GateOn
  WritePolicy = "write_all"
  UdpPolicy = "buffered"
  PongPolicy = "cancel_safe"
  MaxErr = 0
  MaxPending = 1
  MaxCancel = 2
  MaxTimeout = 1
  MaxWrites = 0
  WLens = {}
  FrameOK <- FrameAny
  KeepHist = TRUE
VIEW View
INVARIANTS TypeOK InOrder NoLoss FramingInv BufferInv PongsOk NoPartialPong WritesOk UnitsOk DiscOk EmitInv
PROPERTIES ErrNoLoss
CHECK_DEADLOCK FALSE
