---------------------------- MODULE Trace_Text ----------------------------
(* Validation of text-conversion events recorded from the real code against LfsText (C10, C11, C12). *)
EXTENDS LfsText, Json, IOUtils, TLCExt, SequencesExt

Rec == ndJsonDeserialize(IOEnv.TRACE)
VARIABLE l
E == Rec[l]
IsEvent(e) == l <= Len(Rec) /\ Rec[l].ev = e /\ l' = l + 1

\* the encoder, by postcondition: LFS reads back the text ('?' for what no page has), ASCII byte for byte
TCpEnc == /\ IsEvent("CpEnc")
          /\ Matches(CpDecode(E.out), Subst(E.in, Repertoire))
          /\ ((\A i \in 1..Len(E.in) : E.in[i] < 128) => E.out = E.in)
\* the decoder on arbitrary bytes: equal to CpDecode wherever the tables define the bytes
TCpDec == /\ IsEvent("CpDec") /\ Matches(CpDecode(E.in), E.out)
\* C12 end to end: what the sender wrote = unescape(what the receiver decodes), for encodable text
TE2E == /\ IsEvent("E2E")
        /\ E.escaped = Esc(E.in)
        /\ Matches(CpDecode(E.bytes), Subst(E.escaped, Repertoire))
        /\ E.back = E.in
TEsc == IsEvent("Esc") /\ E.out = Esc(E.in)
TUnesc == IsEvent("Unesc") /\ E.out = Unesc(E.in)
TStrip == IsEvent("Strip") /\ E.out = Strip(E.in) /\ E.twice = E.out
TColour == IsEvent("Colour") /\ E.out = Colourify(E.name, E.in) /\ E.stripped = Strip(E.in)
\* C11: the byte range of a text field inside an encoded frame
TField == /\ IsEvent("Field")
          /\ Matches(CpDecode(E.enc), Subst(E.text, Repertoire))          \* enc really is an encoding of the text
          /\ CASE E.rule = "fixed"    -> FixedField(E.field, E.enc, E.n)
               [] E.rule = "fixednul" -> FixedFieldNul(E.field, E.enc, E.n)
               [] E.rule = "var"      -> VarField(E.field, E.enc, E.n)
               [] E.rule = "varnul"   -> VarFieldNul(E.field, E.enc, E.n)
               [] OTHER -> FALSE
\* C03 on frames that carry non-ASCII text: the encoder never aborts; what it returns is one well-formed frame of the mode
\* (multiple of 4, within the limit, size byte = length or length / 4) which the decoder consumes whole as the same kind.  Text
\* is truncated to its field, so a text-bearing packet with otherwise default fields is never too large: no refusal either.
TFrame == /\ IsEvent("Frame")
          /\ E.res = "ok"
          /\ LET n == Len(E.bytes) IN
             /\ n % 4 = 0 /\ n >= 4 /\ n <= (IF E.mode = "C" THEN 1020 ELSE 252)
             /\ E.bytes[1] = (IF E.mode = "C" THEN n \div 4 ELSE n)
             /\ E.consumed = n /\ E.back = E.kind
          \* C01 for text that is not ASCII: a text that fits its field comes back unchanged and the packet re-encodes to the frame
          /\ (E.fits => (E.back_text = E.text /\ E.reenc))
\* C11: decoding stops at the first NUL
TFieldDec == /\ IsEvent("FieldDec") /\ Matches(CpDecode(FirstNul(E.field)), E.text)
\* IS_MSO: the whole message is one LFS string (a code page selected in the name stays in force in the text); the decoded
\* text start is the UTF-8 length of the decoded name; re-encoding the decoded packet gives back the frame
Utf8Len(c) == IF c < 128 THEN 1 ELSE IF c < 2048 THEN 2 ELSE IF c < 65536 THEN 3 ELSE 4
RECURSIVE Utf8Total(_)
Utf8Total(s) == IF s = <<>> THEN 0 ELSE Utf8Len(Head(s)) + Utf8Total(Tail(s))
TMsoDec == /\ IsEvent("MsoDec")
           /\ Matches(CpDecode(E.enc), E.whole)                 \* the frame really carries name ++ text
           /\ E.res = "ok" /\ E.msg = E.whole
           /\ E.textstart = Utf8Total(E.name)
           \* re-encoding gives the same header and text; the amount of NUL padding (>= 0, to a multiple of 4) is the writer's choice
           /\ E.re_res = "ok" /\ Len(E.re) >= 8 + Len(E.enc) /\ Len(E.re) % 4 = 0 /\ E.re[1] = Len(E.re)
           /\ SubSeq(E.re, 2, 8 + Len(E.enc)) = SubSeq(E.frame, 2, 8 + Len(E.enc))
           /\ AllNul(SubSeq(E.re, 9 + Len(E.enc), Len(E.re))) /\ Len(E.re) - (8 + Len(E.enc)) <= 4
TNext == TMsoDec \/ TCpEnc \/ TCpDec \/ TE2E \/ TEsc \/ TUnesc \/ TStrip \/ TColour \/ TFrame \/ TField \/ TFieldDec
TSpec == l = 1 /\ [][TNext]_l
Accepted ==
  LET reached == TLCGet("stats").diameter IN
  IF reached = Len(Rec) + 1 THEN TRUE
  ELSE PrintT(<<"REJECTED", reached, ToJson(Rec[reached])>>) /\ FALSE
=============================================================================
