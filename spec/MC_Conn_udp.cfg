SPECIFICATION Spec
CONSTANTS
  MaxFrames = 4
  Lens <- L48
  Classes <- ClsUdp
  Cap = 12
  MaxDgram = 8
  Transports <- TUdp
  Flavors <- BothFlavors
  Verifies <- GateOn
  WritePolicy = "write_all"
  UdpPolicy = "buffered"
  PongPolicy = "cancel_safe"
  MaxErr = 1
  MaxPending = 0
  MaxCancel = 0
  MaxTimeout = 0
  MaxWrites = 1
  WLens = {4}
  FrameOK <- FrameAny
  KeepHist = TRUE
VIEW View
INVARIANTS TypeOK InOrder NoLoss FramingInv BufferInv PongsOk NoPartialPong WritesOk UnitsOk DiscOk EmitInv
PROPERTIES ErrNoLoss
CHECK_DEADLOCK FALSE
