----------------------------- MODULE LfsFiles -----------------------------
(***************************************************************************)
(* The PTH and SMX file grammars as section lengths, and the verdict a       *)
(* parser must reach for a file image cut at any point or carrying a hostile *)
(* count (C17).                                                              *)
(*                                                                           *)
(* PTH = "LFSPTH" version revision num_nodes:i32 finish:i32  num_nodes x 40  *)
(* SMX = "LFSSMX" 6 header bytes + 4 spare, track[32], colour[3] + 9 spare,  *)
(*       num_objects:i32, objects { centre 12, radius 4, np:i32, nt:i32,     *)
(*       np x 16, nt x 8 }, num_checkpoints:i32, checkpoints x 4             *)
(***************************************************************************)
EXTENDS Naturals, Integers, Sequences, FiniteSets

PthHeader == 16
PthNode == 40
SmxHeader == 64          \* up to and including num_objects
ObjHeader == 24          \* centre, radius, np, nt
PointSize == 16
TriSize == 8

Hostile == {"neg1", "min", "max", "plus1"}     \* -1, -2^31, 2^31-1, one more than present
Positions == {"none", "nodes", "objects", "np", "nt", "checkpoints"}

\* ---------------------------------------------------------------- PTH
PthTotal(n) == PthHeader + PthNode * n
\* a PTH image: n nodes physically present, count field = declared (an Int, or a hostile tag), cut to `cut` bytes
PthVerdict(n, hostile, cut) ==
  IF cut < PthHeader THEN "err"                       \* header incomplete
  ELSE IF hostile \in {"neg1", "min"} THEN "err"      \* negative count
  ELSE IF hostile = "max" THEN "err"                  \* 2^31-1 nodes cannot be present
  ELSE LET declared == IF hostile = "plus1" THEN n + 1 ELSE n IN
       IF PthTotal(declared) <= cut THEN "ok" ELSE "err"
PthCuts(n) == 0..PthTotal(n)

\* ---------------------------------------------------------------- SMX
ObjLen(o) == ObjHeader + PointSize * o.np + TriSize * o.nt
RECURSIVE ObjsLen(_)
ObjsLen(os) == IF os = <<>> THEN 0 ELSE ObjLen(Head(os)) + ObjsLen(Tail(os))
SmxTotal(s) == SmxHeader + ObjsLen(s.objs) + 4 + 4 * s.cps
\* hostile = [pos, how, idx]: the count at position pos (of object idx for np / nt) is replaced
SmxVerdict(s, h, cut) ==
  IF h.pos = "none" THEN (IF cut = SmxTotal(s) THEN "ok" ELSE IF cut < SmxTotal(s) THEN "err" ELSE "ok")
  ELSE "err"        \* only hostile placements whose outcome does not depend on the payload are generated (see SmxHostiles)
\* hostile placements with a payload-independent verdict: negative or 2^31-1 anywhere; "one more than present"
\* only where the over-read is bound to hit the end of the file
SmxHostiles(s) ==
  {[pos |-> "objects", how |-> w, idx |-> 0] : w \in {"neg1", "min", "max"}}
  \cup (IF 4 + 4 * s.cps < ObjHeader THEN {[pos |-> "objects", how |-> "plus1", idx |-> 0]} ELSE {})
  \cup {[pos |-> "checkpoints", how |-> w, idx |-> 0] : w \in Hostile}
  \cup {[pos |-> p, how |-> w, idx |-> i] : p \in {"np", "nt"}, w \in {"neg1", "min", "max"}, i \in 1..Len(s.objs)}

\* allocation a parser may justify with an input of len bytes (elements are at most 4x their wire size in memory)
MaxAlloc(len) == 65536 + 8 * len
=============================================================================
