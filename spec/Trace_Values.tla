--------------------------- MODULE Trace_Values ---------------------------
(* Validation of value-conversion events recorded from the real code (C13-C16). *)
(* The reference operators are those of LfsWire (durations, race laps) and       *)
(* LfsValues (vehicles, tracks, game versions).                                  *)
EXTENDS LfsValues, Json, IOUtils, TLCExt

Rec == ndJsonDeserialize(IOEnv.TRACE)
VARIABLES l,        \* next event
          areas,    \* C14: <<track area, licence>> pairs seen so far
          codes,    \* C14: track codes seen so far
          dists,    \* C14: <<track code, distance in 1/1000 mile>> of the configurations that have one
          names     \* C14: <<track code, complete name>>
E == Rec[l]
IsEvent(e) == l <= Len(Rec) /\ Rec[l].ev = e /\ l' = l + 1
Same == UNCHANGED <<areas, codes, dists, names>>

Lim(v, w) == IF w = 2 THEN <<v[1], 0, 0, 0>> ELSE <<v[1], v[2], 0, 0>>

\* C15 decode side: the wire value v (w bytes, unit scale ms) became duration (ms, ns) and re-encoded to re
TDurDec == /\ IsEvent("DurDec")
           /\ E.ms = DurOf(E.v[1], E.v[2], E.scale).ms /\ E.ns = 0
           /\ E.re_res = "ok" /\ E.re = E.v
\* C15 encode side: exact (rounded down to the resolution) or refused - never a different value
TDurEnc == /\ IsEvent("DurEnc")
           /\ LET d == [ms |-> E.ms, ns |-> E.ns]  u == Units(d, E.scale) IN
              \* huge: 2^64 ms and more (E.ms then holds the low 64 bits only): far beyond every field, whatever the low bits say
              IF E.huge THEN E.res = "err"
              ELSE IF FitsW(u, E.w) THEN E.res = "ok" /\ E.v = <<u[1], u[2]>>
              ELSE E.res = "err"
\* race length byte -> value -> byte; bytes above 238 are undefined in InSim: practice is the documented fallback
TLapsDec == /\ IsEvent("LapsDec")
            /\ [k |-> E.k, v |-> E.v] = RaceLapsOf(E.b)
            /\ E.re = (IF E.b > 238 THEN 0 ELSE E.b)
\* value -> byte: exact (laps above 100 rounded down to the 10-lap resolution), an error, or practice
TLapsEnc == /\ IsEvent("LapsEnc")
            /\ LET r == [k |-> E.k, v |-> E.v]
                   inrange == \/ r.k = "Practice" \/ (r.k = "Laps" /\ r.v \in 1..1000) \/ (r.k = "Hours" /\ r.v \in 1..48) IN
               IF inrange THEN E.res = "ok" /\ E.b = RaceLapsByte(r)
               ELSE E.res = "err" \/ (E.res = "ok" /\ E.b = 0)

\* C13: four wire bytes -> vehicle -> four wire bytes, and the printed name
TVehRead == /\ IsEvent("VehRead") /\ Same
            /\ LET c == VehClass(E.bytes) IN
               /\ VehClassTree(E.bytes) = c.k                      \* the two forms of the rule agree on every sampled input
               /\ IF c.k = "error" THEN E.res = "err"
                  ELSE /\ E.res = "ok" /\ E.k = c.k /\ E.name = c.name /\ E.id = c.id
                       /\ E.re = E.bytes                           \* re-encodes to the identical bytes
                       /\ E.disp = VehDisplay(c)                   \* printed name = wire name / skin id in hexadecimal
                       /\ E.is_mod = (c.k = "mod") /\ E.is_builtin = ~E.is_mod
                       /\ E.lic = VehLicence(c)
\* a box of identifiers on which the implementation's classification is uniform (exhaustive sweep, compressed)
TVehBox == /\ IsEvent("VehBox") /\ Same
           /\ \A b0 \in {E.lo[1], E.hi[1]}, b1 \in {E.lo[2], E.hi[2]}, b2 \in {E.lo[3], E.hi[3]}, b3 \in {E.lo[4], E.hi[4]} :
                 VehClassTree(<<b0, b1, b2, b3>>) = E.cls
           \* the box lies inside one region of the rule: either its last byte is never 0 (then everything in it is a mod id), or
           \* the last byte is 0 throughout and no byte range crosses an alphanumeric edge or mixes 0 with non-0
           /\ \/ E.lo[4] > 0
              \/ /\ E.lo[4] = 0 /\ E.hi[4] = 0
                 /\ \A p \in 1..3 : E.lo[p] = E.hi[p] \/ (\A c \in E.lo[p]..E.hi[p] : IsAlnum(c) = IsAlnum(E.lo[p]) /\ (c = 0) = (E.lo[p] = 0))
           /\ (E.cls \in {"std", "error"} => E.lo = E.hi)
           /\ E.rt_ok

\* C14: one accepted 6-byte value
TTrackRow == /\ IsEvent("TrackRow")
             /\ CodeShapeOk(E.code)
             /\ E.bytes = TrackWire(E.code) /\ E.re = E.bytes /\ E.name = E.code /\ E.disp = E.code
             /\ E.chunk_ok                \* the six bytes are the value, however the reader hands them over
             /\ E.rev = TrackReversed(E.code) /\ E.open = TrackOpen(E.code)
             /\ (E.open => ~E.dist) /\ (E.dist <=> E.mile > 0) /\ E.km_ok
             /\ AreaKey(E.code) \in DOMAIN AreaLicence /\ E.lic = AreaLicence[AreaKey(E.code)]
             \* a reversed configuration is the same road: whichever of the two rows is seen second must agree with the first
             /\ \A p \in dists : (TrackBaseCfg(p[1]) = TrackBaseCfg(E.code) /\ E.mile > 0) => p[2] = E.mile
             /\ dists' = IF E.mile > 0 THEN dists \cup {<<E.code, E.mile>>} ELSE dists
             \* the complete name starts with the area's name; a reversed / open configuration is named after its base
             \* configuration plus " R" / " X" / " Y"
             \* (the configurations of the autocross area have names of their own: Skid Pad, Drag Strip, ...)
             /\ AreaKey(E.code) = "AU" \/ LET an == AreaName[AreaKey(E.code)] IN Len(E.full) >= Len(an) /\ \A i \in 1..Len(an) : E.full[i] = an[i]
             /\ \A p \in names :
                   /\ (TrackSuffix(E.code) # 0 /\ p[1] = TrackStem(E.code)) => E.full = p[2] \o <<32, TrackSuffix(E.code)>>
                   /\ (TrackSuffix(p[1]) # 0 /\ TrackStem(p[1]) = E.code) => p[2] = E.full \o <<32, TrackSuffix(p[1])>>
             /\ names' = names \cup {<<E.code, E.full>>}
             /\ E.code \notin codes
             /\ \A p \in areas : p[1] = TrackArea(E.code) => p[2] = E.lic       \* one licence per area
             /\ codes' = codes \cup {E.code} /\ areas' = areas \cup {<<TrackArea(E.code), E.lic>>}
\* a 6-byte value that is not the canonical form of any configuration must be refused
TTrackNon == /\ IsEvent("TrackNon") /\ Same /\ E.res = "err"
TTrackEnd == /\ IsEvent("TrackEnd") /\ Same
             /\ Cardinality(codes) = 154 /\ E.accepted = 154 /\ E.other_accepted = 0

\* C16
TGvParse == /\ IsEvent("GvParse") /\ Same
            /\ LET p == GvParse(E.in) IN
               IF p.ok /\ p.patch = -2 THEN E.res \in {"ok", "err"} /\ (E.res = "ok" => (E.minor = p.minor /\ (E.finite => E.reparse_eq)))
               ELSE IF p.ok THEN /\ E.res = "ok" /\ E.minor = p.minor /\ E.patch = p.patch /\ (E.finite => E.reparse_eq)
               ELSE E.res = "err"
TGvCmp == /\ IsEvent("GvCmp") /\ Same
          /\ E.res = GvCmp(E.a, E.b) /\ E.eq = GvEq(E.a, E.b) /\ E.rev = -GvCmp(E.a, E.b)

TNext == \/ (TDurDec /\ Same) \/ (TDurEnc /\ Same) \/ (TLapsDec /\ Same) \/ (TLapsEnc /\ Same)
         \/ TVehRead \/ TVehBox \/ TTrackRow \/ TTrackNon \/ TTrackEnd \/ TGvParse \/ TGvCmp
TSpec == l = 1 /\ areas = {} /\ codes = {} /\ dists = {} /\ names = {} /\ [][TNext]_<<l, areas, codes, dists, names>>

Accepted ==
  LET reached == TLCGet("stats").diameter IN
  IF reached = Len(Rec) + 1 THEN TRUE
  ELSE PrintT(<<"REJECTED", reached, ToJson(Rec[reached])>>) /\ FALSE
=============================================================================
