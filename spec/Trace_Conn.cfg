SPECIFICATION TSpec
CONSTANTS
  MaxFrames <- Many
  Lens <- NoLens
  Classes <- AllCls
  Cap = 6120
  MaxDgram = 1020
  Transports <- TAll
  Flavors <- FBoth
  Verifies <- VBoth
  WritePolicy = "write_all"
  UdpPolicy = "buffered"
  PongPolicy = "cancel_safe"
  MaxErr <- Many
  MaxPending <- Many
  MaxCancel <- Many
  MaxTimeout <- Many
  MaxWrites <- Many
  WLens <- NoLens
  FrameOK <- FrameAny
  KeepHist = FALSE
  MaxQueued <- Many
  Truncation = TRUE
CONSTRAINT Progress
INVARIANTS InOrder FramingInv BufferInv PongsOk WritesOk OutContig DiscOk
POSTCONDITION Accepted
CHECK_DEADLOCK FALSE
