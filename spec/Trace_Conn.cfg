SPECIFICATION TSpec
CONSTANTS
  MaxFrames <- Many
  Lens <- NoLens
  Classes <- AllCls
  Cap = 6120
  MaxDgram = 1020
  Transports <- TAll
  Flavors <- FBoth
  Verifies <- VBoth
  WritePolicy = "write_all"
  UdpPolicy = "buffered"
  PongPolicy = "cancel_safe"
  MaxErr <- Many
  MaxPending <- Many
  MaxCancel <- Many
  MaxTimeout <- Many
  MaxWrites <- Many
  WLens <- NoLens
  FrameOK <- FrameAny
  WriteFailures = FALSE
  FlushPolicy = "flush"
  MaxBlock = 0
  KeepHist = FALSE
  MaxQueued <- Many
  Truncation = TRUE
CONSTRAINT Progress
INVARIANTS T_InOrder T_FramingInv T_BufferInv T_PongsOk T_WritesOk T_OutContig T_DiscOk
POSTCONDITION Accepted
CHECK_DEADLOCK FALSE
