----------------------------- MODULE LfsConn -----------------------------
(***************************************************************************)
(* The insim.rs connection (net::{blocking_impl,tokio_impl}::Framed with    *)
(* its transports) as a state machine.  One action per critical section of  *)
(* the implementation:                                                      *)
(*                                                                          *)
(*   peer side     PeerSend, PeerDgram, PeerWsPack, PeerWsOther, PeerClose  *)
(*   read()        ReadCall, TryDecode, Fill* (one per transport adaptor),  *)
(*                 FillEof, FillErr, FillPending, FillTimeout, PongWrite,   *)
(*                 PongPending, Cancel                                      *)
(*   write()       WriteCall, WriteAccept, WritePending                     *)
(*                                                                          *)
(* Bytes are tokens <<frame id, index>>; `sent[id]` knows the frame's       *)
(* length and class.  The specification of record is the behaviour the      *)
(* properties C05-C09, C19, C20 demand (policies write_all, buffered UDP    *)
(* adaptor, cancel-safe reply).  Behaviours that deviate are kept as named  *)
(* policy values so that TLC exhibits the counterexample and so that the    *)
(* Mut_*.cfg configurations (which must FAIL) show the invariants are not   *)
(* vacuous.                                                                 *)
(***************************************************************************)
EXTENDS Naturals, Sequences, FiniteSets, SequencesExt, TLC

CONSTANTS
  MaxFrames,     \* frames the peer sends at most
  Lens,          \* frame lengths the peer may choose
  Classes,       \* subset of AllClasses the peer may choose
  Cap,           \* capacity of the connection's receive buffer (6120 in the code; scaled)
  MaxDgram,      \* adaptor scratch size = largest datagram (1020 in the code; scaled)
  Transports,    \* set of transports explored from Init
  Flavors,       \* subset of {"blocking","tokio"}
  Verifies,      \* subset of BOOLEAN : version gate on/off
  WritePolicy,   \* "write_all" (required) | "single_write" (loses the tail on a short write)
  UdpPolicy,     \* "buffered" (required)  | "direct" (datagram truncated to the offered slice)
  PongPolicy,    \* "cancel_safe" (required) | "inline" (reply and packet live only in the dropped future)
  MaxErr, MaxPending, MaxCancel, MaxTimeout,
  MaxWrites, WLens,
  Truncation,    \* BOOLEAN: the peer may die in the middle of a frame
  MaxQueued,     \* ws: messages the relay may have in flight (model bound)
  FlushPolicy,   \* "flush" (required): a write completes only when the websocket library has handed the message to the socket
                 \* | "no_flush": poll_write queues the message, tries to flush, ignores "not ready" and reports success
  MaxBlock,      \* how often the socket may become blocked (write-side back pressure; ws only)
  WriteFailures, \* BOOLEAN: the transport may fail a write of the keep-alive reply (fatal for the connection)
  KeepHist,      \* FALSE in trace validation: the script of steps is not recorded
  FrameOK(_, _)  \* which (length, class) pairs the peer may produce (TRUE: any)

AllClasses == {"ka", "tiny", "pkt", "bad", "ver9", "verX", "short"}     \* + "partial": only produced by PeerTruncated
AllTransports == {"stream", "udp", "ws"}

VARIABLES
  cfg,       \* [transport, flavor, verify] chosen at Init; never changes
  sent,      \* frames the peer has produced so far: Seq([len, cls])
  wsq,       \* ws only: bytes produced by the peer, not yet packed into a message
  packed,    \* ws only: number of bytes packed into messages so far
  net,       \* stream: Seq(token); udp: Seq(datagram = Seq(token)); ws: Seq([kind, toks])
  eof,       \* the peer closed
  abuf,      \* adaptor buffer (udp buffered adaptor, ws adaptor)
  rbuf,      \* connection receive buffer (unconsumed part)
  roff,      \* bytes already consumed from the front of the allocation
  pc,        \* "idle" | "loop" | "fill" | "pong" | "write" | "closed" | "dead"
  pending,   \* id of the keep-alive removed from rbuf whose reply is not finished (0 = none)
  pongleft,  \* bytes of that reply still to be written
  wcur, wleft, wlen, nwrites,  \* user write in progress: id, bytes left, total ; writes started
  wafter,    \* a user write() is flushing an interrupted keep-alive reply before its own frame
  out,       \* what the transport accepted: Seq(<<"p"|"w", id, idx, frame length>>)
  units,     \* datagram / ws transports: lengths of the units (datagrams, messages) that left for the peer
  held,      \* ws: messages queued in the websocket library that have not been handed to the socket yet
  blocked,   \* ws: the socket does not accept data at the moment (write-side back pressure)
  nblock,    \* number of times the socket became blocked
  results,   \* what read() returned so far: Seq([t, id])
  nerr, npend, ncancel, ntimeout,
  hist       \* script of the externally visible steps (hidden by VIEW in exhaustive runs)

core == <<cfg, sent, wsq, packed, net, eof, abuf, rbuf, roff, pc, pending, pongleft,
          wcur, wleft, wlen, nwrites, wafter, out, units, held, blocked, nblock, results, nerr, npend, ncancel, ntimeout>>
vars == <<core, hist>>

Tok(i, k) == <<i, k>>
FrameToks(i, n) == [k \in 1..n |-> Tok(i, k)]
Min2(a, b) == IF a < b THEN a ELSE b

H(a, n, s) == [a |-> a, n |-> n, s |-> s]
LogSeq(es) == hist' = IF KeepHist THEN hist \o es ELSE hist
Log(e) == LogSeq(<<e>>)

IsStream == cfg.transport = "stream"
IsUdp    == cfg.transport = "udp"
IsWs     == cfg.transport = "ws"
IsTokio  == cfg.flavor = "tokio"
Atomic   == ~IsStream        \* datagram and message transports accept a frame as one unit

Init ==
  /\ cfg \in [transport : Transports, flavor : Flavors, verify : Verifies]
  /\ (cfg.transport = "ws" => cfg.flavor = "tokio")
  /\ sent = <<>> /\ wsq = <<>> /\ packed = 0 /\ net = <<>> /\ eof = FALSE /\ abuf = <<>>
  /\ rbuf = <<>> /\ roff = 0 /\ pc = "idle" /\ pending = 0 /\ pongleft = 0
  /\ wcur = 0 /\ wleft = 0 /\ wlen = 0 /\ nwrites = 0 /\ wafter = FALSE
  /\ out = <<>> /\ units = <<>> /\ held = <<>> /\ blocked = FALSE /\ nblock = 0 /\ results = <<>>
  /\ nerr = 0 /\ npend = 0 /\ ncancel = 0 /\ ntimeout = 0
  /\ hist = <<>>

----------------------------------------------------------------------------
(* The peer *)

PeerSend(n, c) ==
  /\ cfg.transport \in {"stream", "ws"} /\ ~eof /\ Len(sent) < MaxFrames
  /\ sent' = Append(sent, [len |-> n, cls |-> c])
  /\ IF IsStream THEN /\ net' = net \o FrameToks(Len(sent) + 1, n) /\ UNCHANGED wsq
                 ELSE /\ wsq' = wsq \o FrameToks(Len(sent) + 1, n) /\ UNCHANGED net
  /\ Log(H("send", n, c))
  /\ UNCHANGED <<cfg, packed, eof, abuf, rbuf, roff, pc, pending, pongleft, wcur, wleft, wlen, nwrites, wafter,
                 out, units, held, blocked, nblock, results, nerr, npend, ncancel, ntimeout>>

\* the peer dies in the middle of a frame: only the first k < n bytes of it arrive, then the stream ends
PeerTruncated(n, k) ==
  /\ IsStream /\ ~eof /\ Len(sent) < MaxFrames /\ k \in 1..(n - 1)
  /\ sent' = Append(sent, [len |-> n, cls |-> "partial"])
  /\ net' = net \o SubSeq(FrameToks(Len(sent) + 1, n), 1, k)
  /\ eof' = TRUE
  /\ Log(H("sendp", n * 100 + k, "pkt"))
  /\ UNCHANGED <<cfg, wsq, packed, abuf, rbuf, roff, pc, pending, pongleft, wcur, wleft, wlen, nwrites, wafter,
                 out, units, held, blocked, nblock, results, nerr, npend, ncancel, ntimeout>>

\* a datagram carries one or more whole frames
PeerDgram(fs) ==
  /\ IsUdp /\ ~eof /\ Len(fs) >= 1 /\ Len(sent) + Len(fs) <= MaxFrames
  /\ LET base == Len(sent)
         toks == FlattenSeq([j \in 1..Len(fs) |-> FrameToks(base + j, fs[j].len)]) IN
     /\ Len(toks) <= MaxDgram
     /\ net' = Append(net, toks)
  /\ sent' = sent \o fs
  /\ LogSeq([j \in 1..Len(fs) |-> H(IF j = 1 THEN "dgram" ELSE "dgram+", fs[j].len, fs[j].cls)])
  /\ UNCHANGED <<cfg, wsq, packed, eof, abuf, rbuf, roff, pc, pending, pongleft, wcur, wleft, wlen, nwrites, wafter,
                 out, units, held, blocked, nblock, results, nerr, npend, ncancel, ntimeout>>

\* ws: the relay packs the next k bytes of its byte stream into one binary message
PeerWsPack(k) ==
  /\ IsWs /\ ~eof /\ k \in 1..Len(wsq) /\ Len(net) < MaxQueued
  /\ net' = Append(net, [kind |-> "binary", toks |-> SubSeq(wsq, 1, k)])
  /\ wsq' = SubSeq(wsq, k + 1, Len(wsq)) /\ packed' = packed + k
  /\ Log(H("wsmsg", k, "binary"))
  /\ UNCHANGED <<cfg, sent, eof, abuf, rbuf, roff, pc, pending, pongleft, wcur, wleft, wlen, nwrites, wafter,
                 out, units, held, blocked, nblock, results, nerr, npend, ncancel, ntimeout>>

\* ws: a message that is not binary (text, ping, pong) or an empty binary message
PeerWsOther(kind) ==
  /\ IsWs /\ ~eof /\ Len(net) < MaxQueued
  /\ net' = Append(net, [kind |-> kind, toks |-> <<>>])
  /\ Log(H("wsmsg", 0, kind))
  /\ UNCHANGED <<cfg, sent, wsq, packed, eof, abuf, rbuf, roff, pc, pending, pongleft, wcur, wleft, wlen, nwrites, wafter,
                 out, units, held, blocked, nblock, results, nerr, npend, ncancel, ntimeout>>

PeerClose ==
  /\ cfg.transport \in {"stream", "ws"} /\ ~eof /\ eof' = TRUE
  /\ Log(H("close", 0, ""))
  /\ UNCHANGED <<cfg, sent, wsq, packed, net, abuf, rbuf, roff, pc, pending, pongleft, wcur, wleft, wlen, nwrites, wafter,
                 out, units, held, blocked, nblock, results, nerr, npend, ncancel, ntimeout>>

----------------------------------------------------------------------------
(* read() *)

ReadCall ==
  /\ pc = "idle"
  /\ pc' = IF pending # 0 THEN "pong" ELSE "loop"    \* cancel-safe policy: finish an interrupted reply first
  /\ Log(H("read", 0, ""))
  /\ UNCHANGED <<cfg, sent, wsq, packed, net, eof, abuf, rbuf, roff, pending, pongleft, wcur, wleft, wlen, nwrites, wafter,
                 out, units, held, blocked, nblock, results, nerr, npend, ncancel, ntimeout>>

HeadId  == rbuf[1][1]
HeadLen == sent[HeadId].len       \* announced by the size byte; meaningful because of FramingInv
HeadCls == sent[HeadId].cls
Complete == Len(rbuf) >= 4 /\ (HeadCls = "short" \/ Len(rbuf) >= HeadLen)

Deliver(r) == /\ results' = Append(results, r) /\ Log(H("result", r.id, r.t))

\* Codec::decode on the buffer, then the version gate, then the keep-alive test -
\* in the order Framed::read applies them.
TryDecode ==
  /\ pc = "loop"
  /\ IF Complete
     THEN LET n == HeadLen  id == HeadId  c == HeadCls IN
          IF c = "short"
          THEN \* impossible announced length: framing error, nothing removed, stream unusable
               /\ Deliver([t |-> "frame_err", id |-> id]) /\ pc' = "dead"
               /\ UNCHANGED <<rbuf, roff, pending, pongleft>>
          ELSE
          /\ rbuf' = SubSeq(rbuf, n + 1, Len(rbuf))
          /\ roff' = roff + n
          /\ CASE c = "bad" ->
                    /\ Deliver([t |-> "decode_err", id |-> id]) /\ pc' = "idle"
                    /\ UNCHANGED <<pending, pongleft>>
               [] c = "verX" /\ cfg.verify ->
                    /\ Deliver([t |-> "version_err", id |-> id]) /\ pc' = "idle"
                    /\ UNCHANGED <<pending, pongleft>>
               [] c = "ka" ->
                    /\ pending' = id /\ pongleft' = 4 /\ pc' = "pong"
                    /\ UNCHANGED <<results, hist>>
               [] OTHER ->
                    /\ Deliver([t |-> "pkt", id |-> id]) /\ pc' = "idle"
                    /\ UNCHANGED <<pending, pongleft>>
     ELSE /\ pc' = "fill" /\ UNCHANGED <<rbuf, roff, results, pending, pongleft, hist>>
  /\ UNCHANGED <<cfg, sent, wsq, packed, net, eof, abuf, wcur, wleft, wlen, nwrites, wafter, out, units, held, blocked, nblock,
                 nerr, npend, ncancel, ntimeout>>

\* BytesMut::chunk_mut(): the spare capacity, reclaimed when exhausted.  Any
\* policy offering >= 1 byte satisfies the properties; this one mirrors bytes 1.x
\* so that the adaptor defects that depend on a shrinking slice are reachable.
Spare     == Cap - roff - Len(rbuf)
Reclaimed == Spare <= 0
OffAfter  == IF Reclaimed THEN 0 ELSE roff
Offered   == IF Reclaimed THEN (IF Cap - Len(rbuf) >= 1 THEN Cap - Len(rbuf) ELSE 1) ELSE Spare

Filled(toks) == /\ rbuf' = rbuf \o toks /\ roff' = OffAfter /\ pc' = "loop"

FillStream(k) ==
  /\ pc = "fill" /\ IsStream /\ Len(net) > 0
  /\ k \in 1..Min2(Offered, Len(net))
  /\ Filled(SubSeq(net, 1, k)) /\ net' = SubSeq(net, k + 1, Len(net))
  /\ Log(H("fill", k, ""))
  /\ UNCHANGED <<cfg, sent, wsq, packed, eof, abuf, pending, pongleft, wcur, wleft, wlen, nwrites, wafter, out, units, held, blocked, nblock,
                 results, nerr, npend, ncancel, ntimeout>>

\* trace form: the spare capacity offered by the buffer is an observed input, not predicted
FillStreamObs(k, offered) ==
  /\ pc = "fill" /\ IsStream /\ k >= 1 /\ k <= offered /\ Len(net) >= k
  /\ rbuf' = rbuf \o SubSeq(net, 1, k) /\ roff' = 0 /\ pc' = "loop"
  /\ net' = SubSeq(net, k + 1, Len(net))
  /\ Log(H("fill", k, ""))
  /\ UNCHANGED <<cfg, sent, wsq, packed, eof, abuf, pending, pongleft, wcur, wleft, wlen, nwrites, wafter, out, units, held, blocked, nblock,
                 results, nerr, npend, ncancel, ntimeout>>

\* required: recv into a full-size scratch, keep what does not fit in the adaptor buffer
FillUdpBuffered ==
  /\ pc = "fill" /\ IsUdp /\ UdpPolicy = "buffered"
  /\ \/ /\ Len(abuf) > 0
        /\ LET k == Min2(Offered, Len(abuf)) IN
           /\ Filled(SubSeq(abuf, 1, k)) /\ abuf' = SubSeq(abuf, k + 1, Len(abuf))
           /\ Log(H("fill", k, "abuf"))
        /\ UNCHANGED net
     \/ /\ Len(abuf) = 0 /\ Len(net) > 0
        /\ LET d == Head(net)  k == Min2(Offered, Len(d)) IN
           /\ Filled(SubSeq(d, 1, k)) /\ abuf' = SubSeq(d, k + 1, Len(d))
           /\ Log(H("fill", k, "dgram"))
        /\ net' = Tail(net)
  /\ UNCHANGED <<cfg, sent, wsq, packed, eof, pending, pongleft, wcur, wleft, wlen, nwrites, wafter, out, units, held, blocked, nblock,
                 results, nerr, npend, ncancel, ntimeout>>

\* deviation: recv straight into the caller's slice - the kernel discards the excess
FillUdpDirect ==
  /\ pc = "fill" /\ IsUdp /\ UdpPolicy = "direct" /\ Len(net) > 0
  /\ LET d == Head(net)  k == Min2(Offered, Len(d)) IN
     /\ Filled(SubSeq(d, 1, k)) /\ Log(H("fill", k, "dgram"))
  /\ net' = Tail(net)
  /\ UNCHANGED <<cfg, sent, wsq, packed, eof, abuf, pending, pongleft, wcur, wleft, wlen, nwrites, wafter, out, units, held, blocked, nblock,
                 results, nerr, npend, ncancel, ntimeout>>

\* ws adaptor: drain the adaptor buffer first; otherwise pull messages, skipping
\* everything that is not a non-empty binary message
RECURSIVE SkipOther(_)
SkipOther(ms) == IF ms # <<>> /\ (Head(ms).kind # "binary" \/ Head(ms).toks = <<>>) THEN SkipOther(Tail(ms)) ELSE ms

FillWs ==
  /\ pc = "fill" /\ IsWs
  /\ \/ /\ Len(abuf) > 0
        /\ LET k == Min2(Offered, Len(abuf)) IN
           /\ Filled(SubSeq(abuf, 1, k)) /\ abuf' = SubSeq(abuf, k + 1, Len(abuf))
           /\ Log(H("fill", k, "abuf"))
        /\ UNCHANGED net
     \/ /\ Len(abuf) = 0 /\ SkipOther(net) # <<>>
        /\ LET ms == SkipOther(net)  d == Head(ms).toks  k == Min2(Offered, Len(d)) IN
           /\ Filled(SubSeq(d, 1, k)) /\ abuf' = SubSeq(d, k + 1, Len(d))
           /\ net' = Tail(ms)
           /\ Log(H("fill", k, "msg"))
  /\ UNCHANGED <<cfg, sent, wsq, packed, eof, pending, pongleft, wcur, wleft, wlen, nwrites, wafter, out, units, held, blocked, nblock,
                 results, nerr, npend, ncancel, ntimeout>>

NothingReadable ==
  /\ Len(abuf) = 0
  /\ CASE IsStream -> Len(net) = 0
       [] IsWs     -> SkipOther(net) = <<>>
       [] OTHER    -> FALSE          \* a datagram socket has no end of stream

FillEof ==
  /\ pc = "fill" /\ eof /\ NothingReadable
  /\ Deliver([t |-> "disconnected", id |-> 0]) /\ pc' = "closed"
  /\ net' = IF IsWs THEN <<>> ELSE net
  /\ UNCHANGED <<cfg, sent, wsq, packed, eof, abuf, rbuf, roff, pending, pongleft, wcur, wleft, wlen, nwrites, wafter,
                 out, units, held, blocked, nblock, nerr, npend, ncancel, ntimeout>>

\* a transient transport error: read() returns it, the buffer keeps what it had
FillErr ==
  /\ pc = "fill" /\ nerr < MaxErr
  /\ nerr' = nerr + 1 /\ pc' = "idle"
  /\ results' = Append(results, [t |-> "io_err", id |-> 0])
  /\ LogSeq(<<H("err", 0, ""), H("result", 0, "io_err")>>)
  /\ UNCHANGED <<cfg, sent, wsq, packed, net, eof, abuf, rbuf, roff, pending, pongleft, wcur, wleft, wlen, nwrites, wafter,
                 out, units, held, blocked, nblock, npend, ncancel, ntimeout>>

\* tokio: the transport is not ready; the read future stays suspended
FillPending ==
  /\ pc = "fill" /\ IsTokio /\ npend < MaxPending
  /\ npend' = npend + 1 /\ Log(H("pend", 0, "r"))
  /\ UNCHANGED <<cfg, sent, wsq, packed, net, eof, abuf, rbuf, roff, pc, pending, pongleft, wcur, wleft, wlen,
                 nwrites, wafter, out, units, held, blocked, nblock, results, nerr, ncancel, ntimeout>>

\* tokio: nothing arrived for DEFAULT_TIMEOUT_SECS
FillTimeout ==
  /\ pc = "fill" /\ IsTokio /\ ntimeout < MaxTimeout
  /\ ntimeout' = ntimeout + 1 /\ pc' = "idle"
  /\ results' = Append(results, [t |-> "timeout", id |-> 0])
  /\ LogSeq(<<H("timeout", 0, ""), H("result", 0, "timeout")>>)
  /\ UNCHANGED <<cfg, sent, wsq, packed, net, eof, abuf, rbuf, roff, pending, pongleft, wcur, wleft, wlen, nwrites, wafter,
                 out, units, held, blocked, nblock, nerr, npend, ncancel>>

\* the keep-alive reply: the transport accepts k of the remaining bytes
\* ws: the message is queued in the library and a flush is attempted.  Under the required policy the operation does not
\* complete while the socket is blocked (the step is simply not enabled: the future stays pending); under "no_flush" it
\* completes with the message still queued, and queued messages only leave with a later write that finds the socket ready.
WsCanAccept == IsWs => (FlushPolicy = "no_flush" \/ ~blocked)
Leave(k) == /\ units' = IF ~Atomic THEN units ELSE IF IsWs /\ blocked THEN units ELSE units \o held \o <<k>>
            /\ held' = IF IsWs /\ blocked THEN Append(held, k) ELSE IF IsWs THEN <<>> ELSE held
            /\ UNCHANGED <<blocked, nblock>>

PongWrite(k) ==
  /\ pc = "pong" /\ pongleft > 0 /\ k \in 1..pongleft /\ (Atomic => k = pongleft) /\ WsCanAccept
  /\ out' = out \o [j \in 1..k |-> <<"p", pending, 4 - pongleft + j, 4>>]
  /\ Leave(k)
  /\ IF WritePolicy = "single_write" \/ pongleft = k
     THEN IF wafter
          THEN \* the reply was being flushed by a user write(): the frame follows, the packet waits for the next read()
               /\ pongleft' = 0 /\ pc' = "write" /\ wafter' = FALSE /\ Log(H("pongw", k, ""))
               /\ UNCHANGED <<pending, results>>
          ELSE \* single_write: one write() call, the result is ignored, the tail is dropped
               /\ pongleft' = 0 /\ pc' = "idle" /\ pending' = 0
               /\ results' = Append(results, [t |-> "pkt", id |-> pending])
               /\ LogSeq(<<H("pongw", k, ""), H("result", pending, "pkt")>>)
               /\ UNCHANGED wafter
     ELSE /\ pongleft' = pongleft - k /\ Log(H("pongw", k, ""))
          /\ UNCHANGED <<pc, pending, results, wafter>>
  /\ UNCHANGED <<cfg, sent, wsq, packed, net, eof, abuf, rbuf, roff, wcur, wleft, wlen, nwrites,
                 nerr, npend, ncancel, ntimeout>>

\* the transport fails the write of the reply (broken pipe, reset, write timeout): read() reports the error and the keep-alive
\* is NOT handed to the caller as if it had been answered.  The connection is finished as far as the model is concerned
\* (a partial reply may be on the wire).
PongFail ==
  /\ WriteFailures /\ pc = "pong" /\ pongleft > 0 /\ ~wafter
  /\ results' = Append(results, [t |-> "io_err", id |-> pending]) /\ pc' = "dead"
  /\ LogSeq(<<H("pongerr", 0, ""), H("result", pending, "io_err")>>)
  /\ UNCHANGED <<cfg, sent, wsq, packed, net, eof, abuf, rbuf, roff, pending, pongleft, wcur, wleft, wlen, nwrites, wafter,
                 out, units, held, blocked, nblock, nerr, npend, ncancel, ntimeout>>

\* read() after a user write flushed the reply: the keep-alive is handed over at once
PongFinish ==
  /\ pc = "pong" /\ pongleft = 0 /\ pending # 0
  /\ Deliver([t |-> "pkt", id |-> pending]) /\ pending' = 0 /\ pc' = "idle"
  /\ UNCHANGED <<cfg, sent, wsq, packed, net, eof, abuf, rbuf, roff, pongleft, wcur, wleft, wlen, nwrites, wafter,
                 out, units, held, blocked, nblock, nerr, npend, ncancel, ntimeout>>

PongPending ==
  /\ pc = "pong" /\ pongleft > 0 /\ IsTokio /\ npend < MaxPending
  /\ npend' = npend + 1 /\ Log(H("pend", 0, "w"))
  /\ UNCHANGED <<cfg, sent, wsq, packed, net, eof, abuf, rbuf, roff, pc, pending, pongleft, wcur, wleft, wlen,
                 nwrites, wafter, out, units, held, blocked, nblock, results, nerr, ncancel, ntimeout>>

\* tokio: the read future is dropped at a suspension point (select! against a timer)
Cancel ==
  /\ IsTokio /\ pc \in {"fill", "pong"} /\ (pc = "pong" => pongleft > 0 /\ ~wafter) /\ ncancel < MaxCancel
  /\ ncancel' = ncancel + 1 /\ pc' = "idle"
  /\ IF PongPolicy = "cancel_safe"
     THEN UNCHANGED <<pending, pongleft>>            \* the reply and its packet survive in the connection
     ELSE /\ pending' = 0 /\ pongleft' = 0           \* they lived in the future: gone
  /\ Log(H("cancel", 0, ""))
  /\ UNCHANGED <<cfg, sent, wsq, packed, net, eof, abuf, rbuf, roff, wcur, wleft, wlen, nwrites, wafter, out, units, held, blocked, nblock,
                 results, nerr, npend, ntimeout>>

----------------------------------------------------------------------------
(* write() *)

WriteCall(n) ==
  /\ pc = "idle" /\ nwrites < MaxWrites
  /\ nwrites' = nwrites + 1 /\ wcur' = nwrites + 1 /\ wleft' = n /\ wlen' = n
  \* an interrupted keep-alive reply is completed first, so that frames never interleave
  /\ IF pending # 0 /\ pongleft > 0 THEN pc' = "pong" /\ wafter' = TRUE ELSE pc' = "write" /\ wafter' = FALSE
  /\ Log(H("wcall", n, ""))
  /\ UNCHANGED <<cfg, sent, wsq, packed, net, eof, abuf, rbuf, roff, pending, pongleft, out, units, held, blocked, nblock, results,
                 nerr, npend, ncancel, ntimeout>>

WriteAccept(k) ==
  /\ pc = "write" /\ k \in 1..wleft /\ (Atomic => k = wleft) /\ WsCanAccept
  /\ out' = out \o [j \in 1..k |-> <<"w", wcur, wlen - wleft + j, wlen>>]
  /\ Leave(k)
  /\ IF WritePolicy = "single_write" \/ wleft = k
     THEN /\ wleft' = 0 /\ pc' = "idle" /\ LogSeq(<<H("wacc", k, ""), H("wdone", wcur, "")>>)
     ELSE /\ wleft' = wleft - k /\ Log(H("wacc", k, "")) /\ UNCHANGED pc
  /\ UNCHANGED <<cfg, sent, wsq, packed, net, eof, abuf, rbuf, roff, pending, pongleft, wcur, wlen, nwrites, wafter,
                 results, nerr, npend, ncancel, ntimeout>>

\* the transport fails a write in the middle of (or before) a user frame - a write time limit that expires, a socket that is not
\* ready, a reset: write() reports the error; what the transport had accepted of the frame stays accepted and NOTHING of that
\* frame is offered again from its beginning (a retry from byte 0 would put the prefix on the wire twice)
WriteFail ==
  /\ WriteFailures /\ pc = "write" /\ ~IsWs
  /\ pc' = "dead" /\ LogSeq(<<H("wfail", 0, ""), H("werr", wcur, "")>>)
  /\ UNCHANGED <<cfg, sent, wsq, packed, net, eof, abuf, rbuf, roff, pending, pongleft, wcur, wleft, wlen, nwrites, wafter,
                 out, units, held, blocked, nblock, results, nerr, npend, ncancel, ntimeout>>

\* write-side back pressure on the websocket's socket: it stops / resumes accepting data (nobody is notified)
WsBlock ==
  /\ IsWs /\ ~blocked /\ nblock < MaxBlock
  /\ blocked' = TRUE /\ nblock' = nblock + 1 /\ Log(H("wsblock", 0, ""))
  /\ UNCHANGED <<cfg, sent, wsq, packed, net, eof, abuf, rbuf, roff, pc, pending, pongleft, wcur, wleft, wlen, nwrites, wafter,
                 out, units, held, results, nerr, npend, ncancel, ntimeout>>
WsUnblock ==
  /\ IsWs /\ blocked
  /\ blocked' = FALSE /\ Log(H("wsunblock", 0, ""))
  /\ UNCHANGED <<cfg, sent, wsq, packed, net, eof, abuf, rbuf, roff, pc, pending, pongleft, wcur, wleft, wlen, nwrites, wafter,
                 out, units, held, nblock, results, nerr, npend, ncancel, ntimeout>>

WritePending ==
  /\ pc = "write" /\ IsTokio /\ npend < MaxPending
  /\ npend' = npend + 1 /\ Log(H("pend", 0, "w"))
  /\ UNCHANGED <<cfg, sent, wsq, packed, net, eof, abuf, rbuf, roff, pc, pending, pongleft, wcur, wleft, wlen,
                 nwrites, wafter, out, units, held, blocked, nblock, results, nerr, ncancel, ntimeout>>

----------------------------------------------------------------------------
Frame(n, c) == [len |-> n, cls |-> c]

\* every disjunct of Next is a named action (TLC reports coverage per name)
DoPeerSend   == \E n \in Lens, c \in Classes : FrameOK(n, c) /\ PeerSend(n, c)
DoPeerDgram1 == \E n \in Lens, c \in Classes : FrameOK(n, c) /\ PeerDgram(<<Frame(n, c)>>)
DoPeerDgram2 == \E n1, n2 \in Lens, c1, c2 \in Classes :
                   FrameOK(n1, c1) /\ FrameOK(n2, c2) /\ PeerDgram(<<Frame(n1, c1), Frame(n2, c2)>>)
DoPeerTruncated == \E n \in Lens, k \in 1..19 : Truncation /\ PeerTruncated(n, k)
DoPeerWsPack == \E k \in 1..(MaxFrames * 12) : PeerWsPack(k)
DoPeerWsOther == \E kind \in {"text", "ping", "empty"} : PeerWsOther(kind)
DoFillStream == \E k \in 1..(Cap + 1) : FillStream(k)
DoPongWrite  == \E k \in 1..4 : PongWrite(k)
\* Framed::handshake(isi) is the write of one IS_ISI frame (44 bytes) and nothing else: whatever the Isi says (its version field
\* included), the connection's configuration - cfg.verify, the version gate - stays what it was
IsiLen == 44
DoHandshake  == IsiLen \in WLens /\ WriteCall(IsiLen)
DoWriteCall  == \E n \in WLens \ {IsiLen} : WriteCall(n)
DoWriteAccept == \E k \in 1..IsiLen : WriteAccept(k)

Next ==
  \/ DoPeerSend \/ DoPeerTruncated \/ DoPeerDgram1 \/ DoPeerDgram2 \/ DoPeerWsPack \/ DoPeerWsOther \/ PeerClose
  \/ ReadCall \/ TryDecode
  \/ DoFillStream \/ FillUdpBuffered \/ FillUdpDirect \/ FillWs
  \/ FillEof \/ FillErr \/ FillPending \/ FillTimeout
  \/ DoPongWrite \/ PongPending \/ PongFinish \/ PongFail \/ Cancel
  \/ DoWriteCall \/ DoHandshake \/ DoWriteAccept \/ WritePending \/ WriteFail \/ WsBlock \/ WsUnblock

Spec == Init /\ [][Next]_vars

\* the read loop makes progress when it can (used only for the liveness check, never under a constraint)
Fair == /\ WF_vars(ReadCall) /\ WF_vars(TryDecode)
        /\ WF_vars(\E k \in 1..(Cap + 1) : FillStream(k) /\ k = Min2(Offered, Len(net)))
        /\ WF_vars(FillUdpBuffered) /\ WF_vars(FillWs) /\ WF_vars(FillEof)
        /\ WF_vars(\E k \in 1..4 : PongWrite(k) /\ k = pongleft)
FairSpec == Spec /\ Fair

----------------------------------------------------------------------------
(* Properties *)

Expected(i) ==
  LET c == sent[i].cls IN
  IF c = "bad" THEN [t |-> "decode_err", id |-> i]
  ELSE IF c = "short" THEN [t |-> "frame_err", id |-> i]
  ELSE IF c = "verX" /\ cfg.verify THEN [t |-> "version_err", id |-> i]
  ELSE [t |-> "pkt", id |-> i]

\* nothing is expected after a frame with an impossible length
RECURSIVE UpToShort(_, _)
UpToShort(i, n) == IF i > n THEN n ELSE IF sent[i].cls = "short" THEN i ELSE IF sent[i].cls = "partial" THEN i - 1 ELSE UpToShort(i + 1, n)
ExpectedSeq == [i \in 1..UpToShort(1, Len(sent)) |-> Expected(i)]
Observed == SelectSeq(results, LAMBDA r : r.t \notin {"io_err", "timeout", "disconnected"})

\* C05 C08 C09 C19 C20: one result per frame, in order, nothing lost, duplicated or invented;
\* the gate rejects exactly the non-9 version packets when it is on
InOrder == IsPrefix(Observed, ExpectedSeq)

\* ws: frames whose last byte has been packed into a message
RECURSIVE ArrivedUpTo(_, _)
ArrivedUpTo(i, bytes) == IF i > Len(sent) \/ bytes < sent[i].len THEN i - 1 ELSE ArrivedUpTo(i + 1, bytes - sent[i].len)
Arrived == IF IsWs THEN ArrivedUpTo(1, packed)
           ELSE IF Len(sent) > 0 /\ sent[Len(sent)].cls = "partial" THEN Len(sent) - 1 ELSE Len(sent)

Quiescent ==
  /\ pc \in {"idle", "closed"} /\ pending = 0
  /\ Len(abuf) = 0
  /\ (IF IsWs THEN SkipOther(net) = <<>> ELSE Len(net) = 0)
  /\ ~Complete

\* at quiescence every frame that fully arrived has produced its result
NoLoss == Quiescent => Len(Observed) = Min2(Arrived, Len(ExpectedSeq))

\* the buffer always starts on a frame boundary
FramingInv == Len(rbuf) > 0 => rbuf[1][2] = 1

\* bytes in the buffers are exactly the not-yet-decoded suffix of what arrived, in order (no gap, no duplicate)
Contiguous(s) == \A i \in 1..(Len(s) - 1) :
                    \/ (s[i + 1][1] = s[i][1] /\ s[i + 1][2] = s[i][2] + 1)
                    \/ (s[i + 1][1] = s[i][1] + 1 /\ s[i + 1][2] = 1 /\ s[i][2] = sent[s[i][1]].len)
BufferInv == LET b == rbuf \o abuf IN Contiguous(b)

\* C07: replies are whole, contiguous, one per delivered keep-alive, and precede the delivery
PTokens == SelectSeq(out, LAMBDA x : x[1] = "p")
KaDelivered == SelectSeq(results, LAMBDA r : r.t = "pkt" /\ sent[r.id].cls = "ka")
PongsOk ==
  LET pt == PTokens  kd == KaDelivered IN
  /\ Len(pt) = 4 * Len(kd) + (IF pending # 0 THEN 4 - pongleft ELSE 0)
  /\ \A i \in 1..Len(pt) : pt[i][3] = ((i - 1) % 4) + 1
  /\ \A i \in 1..Len(kd) : pt[4 * i][2] = kd[i].id
\* at quiescence no partial reply is left on the outgoing side (C19)
NoPartialPong == (pc \in {"idle", "closed"} /\ pending = 0) => (LET pt == PTokens IN Len(pt) % 4 = 0)

\* C06: user frames reach the transport complete, contiguous, in call order
WTokens == SelectSeq(out, LAMBDA x : x[1] = "w")
WritesOk ==
  LET wt == WTokens IN
  /\ \A i \in 1..Len(wt) :
        IF i = 1 THEN wt[1][2] = 1 /\ wt[1][3] = 1
        ELSE \/ (wt[i][2] = wt[i - 1][2] /\ wt[i][3] = wt[i - 1][3] + 1)
             \/ (wt[i][2] = wt[i - 1][2] + 1 /\ wt[i][3] = 1)
  \* a finished write left its whole frame behind
  /\ (pc # "write" /\ ~wafter /\ wleft = 0 /\ nwrites > 0 /\ Len(wt) > 0) => wt[Len(wt)][3] = wlen
  /\ (pc # "write" /\ ~wafter /\ wleft = 0) => (IF Len(wt) = 0 THEN nwrites = 0 ELSE wt[Len(wt)][2] = nwrites)

\* C06 C07 C19: what leaves is a sequence of whole frames (only the last may be unfinished): replies and
\* user frames never interleave
OutContig == \A i \in 1..(Len(out) - 1) :
                \/ (out[i + 1][1] = out[i][1] /\ out[i + 1][2] = out[i][2] /\ out[i + 1][3] = out[i][3] + 1)
                \/ (out[i][3] = out[i][4] /\ out[i + 1][3] = 1)

\* C08 / C20: on datagram and message transports every written frame is exactly one unit
UnitsOk == Atomic => \A i \in 1..Len(units) : units[i] \in (WLens \cup {4})

\* C20 (C06): every written frame has left for the peer once the operation that wrote it has completed
AllLeft == (pc \in {"idle", "closed", "loop", "fill"}) => held = <<>>

\* C05 / C20: 'disconnected' only after the stream ended with nothing readable
DiscOk == \A i \in 1..Len(results) : results[i].t = "disconnected" => (eof /\ i = Len(results))

\* C05: a transient error leaves the buffer as it was (action property)
ErrNoLoss == [][(Len(results') > Len(results) /\ results'[Len(results')].t \in {"io_err", "timeout"})
                 => (rbuf' = rbuf /\ abuf' = abuf)]_vars

TypeOK ==
  /\ pc \in {"idle", "loop", "fill", "pong", "write", "closed", "dead"}
  /\ pongleft \in 0..4 /\ wleft \in 0..IsiLen
  /\ (pc = "pong" => pending # 0)
  /\ (wafter => pc = "pong")
  /\ roff >= 0
  /\ blocked \in BOOLEAN /\ (~IsWs => held = <<>> /\ ~blocked)

\* liveness (FairSpec only): every frame that arrived is eventually delivered
AllDelivered == <>[](Len(Observed) >= Min2(Arrived, Len(ExpectedSeq)) \/ pc = "dead")

View == core
=============================================================================
