SPECIFICATION Spec
CONSTANTS
  MaxFrames = 1
  Lens <- L48
  Classes <- ClsUdp
  Cap = 12
  MaxDgram = 8
  Transports <- TStream
  Flavors <- BothFlavors
  Verifies <- GateOn
  WritePolicy = "write_all"
  UdpPolicy = "buffered"
  PongPolicy = "cancel_safe"
  MaxErr = 0
  MaxPending = 1
  MaxCancel = 0
  MaxTimeout = 0
  MaxWrites = 2
  WLens = {4, 8}
  FrameOK <- FrameAny
  KeepHist = TRUE
VIEW View
INVARIANTS TypeOK InOrder NoLoss FramingInv BufferInv PongsOk NoPartialPong WritesOk UnitsOk DiscOk EmitInv
PROPERTIES ErrNoLoss
CHECK_DEADLOCK FALSE
