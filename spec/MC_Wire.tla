----------------------------- MODULE MC_Wire -----------------------------
(***************************************************************************)
(* Vector generator over LfsWire: for every packet kind a base record in     *)
(* which every field carries a different recognisable value (so that a swap  *)
(* of neighbours shows), one-field-at-a-time sweeps over each field's domain *)
(* (every enumerant, every single flag bit, boundary integers, every nibble  *)
(* value, text lengths, element counts), in both size modes.  TLC walks the  *)
(* vectors deterministically and prints, for each, the record, the frame     *)
(* SpecEncode assigns to it and the outcome (ok / refused).                  *)
(***************************************************************************)
EXTENDS LfsWire, Json, IOUtils

CONSTANTS Tier            \* "quick" | "thorough"
Deep == Tier = "thorough"
RECURSIVE Pow2(_)
Pow2(e) == IF e = 0 THEN 1 ELSE 2 * Pow2(e - 1)

Dur(ms) == [ms |-> <<ms % 65536, ms \div 65536, 0, 0>>, ns |-> 0]       \* ms < 2^31
DurL(l) == [ms |-> l, ns |-> 0]
VStd(n) == [k |-> "std", name |-> n, id |-> <<0, 0>>]
VMod(id) == [k |-> "mod", name |-> <<>>, id |-> id]
VUnknown == [k |-> "unknown", name |-> <<>>, id |-> <<0, 0>>]
StdNames == {<<88,70,71>>, <<88,82,71>>, <<70,66,77>>, <<88,82,84>>, <<82,66,52>>, <<70,88,79>>, <<76,88,52>>, <<76,88,54>>,
             <<77,82,84>>, <<85,70,49>>, <<82,65,67>>, <<70,90,53>>, <<70,79,88>>, <<88,70,82>>, <<85,70,82>>, <<70,79,56>>,
             <<70,88,82>>, <<88,82,82>>, <<70,90,82>>, <<66,70,49>>}
Tracks == {<<66,76,49>>, <<66,76,49,82>>, <<83,79,54,89>>, <<82,79,49,49,88>>, <<76,65,50,88>>, <<65,83,55>>, <<75,89,51,88>>}

MaxName(t) == CHOOSE n \in DOMAIN t : \A m \in DOMAIN t : t[n] >= t[m]
MinBit(s) == CHOOSE b \in s : \A c \in s : b <= c

SmallRec(k, d, a, b, f, c) == [k |-> k, dur |-> d, vta |-> a, tms |-> b, flags |-> f, cars |-> c]
SmallBase == SmallRec("Ssp", Dur(12340), 0, 0, 0, 0)
CimRec(k, s, t) == [k |-> k, sub |-> s, seltype |-> t]

NameOverride == [h_mass |-> 150, h_tres |-> 40, spclose |-> 1234, textstart |-> 1]

RECURSIVE BaseRec(_, _), BasePairs(_, _, _)
\* the value(s) a field takes in the base record: a set of <<name, value>> pairs
BaseField(f, i) ==
  IF f.name \in DOMAIN NameOverride /\ f.k = "u" THEN {<<f.name, NameOverride[f.name]>>} ELSE
  CASE f.k = "u"      -> {<<f.name, IF f.w = 1 THEN (10 + 7 * i) % 251 ELSE 1000 + 257 * i>>}
    [] f.k = "i"      -> {<<f.name, IF f.w = 1 THEN -(3 + i) ELSE -(300 + i)>>}
    [] f.k = "w32"    -> {<<f.name, <<1000 + i, 2000 + i>> >>}
    [] f.k = "bool"   -> {<<f.name, TRUE>>}
    [] f.k = "char"   -> {<<f.name, 33 + i>>}
    [] f.k = "enum"   -> {<<f.name, MaxName(f.table)>>}
    [] f.k = "flags"  -> {<<f.name, SetToSeq({n \in DOMAIN f.table : (MinBit(f.table[n]) + i) % 2 = 0})>>}
    [] f.k = "rstr"   -> {<<f.name, T(5, 65 + i)>>}
    [] f.k = "str"    -> {<<f.name, IF f.w = 8 /\ f.name = "version" THEN <<48, 46, 55, 69>> ELSE T(IF f.w > 6 THEN 5 + (i % 2) ELSE 2, 65 + i)>>}
    [] f.k = "vstr"   -> {<<f.name, T(5, 97 + i)>>}
    [] f.k = "dur"    -> {<<f.name, IF f.w = 2 THEN Dur((1234 + i) * f.scale) ELSE Dur((100000 + i) * f.scale)>>}
    [] f.k = "racelaps" -> {<<f.name, [k |-> "Laps", v |-> 40 + i]>>}
    [] f.k = "fuel"   -> {<<f.name, [k |-> "Percentage", v |-> 50 + i]>>}
    [] f.k = "vehicle" -> {<<f.name, VStd(<<88, 82, 84>>)>>}
    [] f.k = "track"  -> {<<f.name, <<66, 76, 49, 82>> >>}
    [] f.k = "bytes"  -> {<<f.name, <<10, 20, 30, 40 + i>> >>}
    [] f.k = "nib"    -> {<<f.name, 5>>, <<f.lo, 9>>}
    [] f.k = "nibhi"  -> {<<f.name, 7>>}
    [] f.k = "struct" -> {<<f.name, BaseRec(f.sub, 3 * i)>>}
    [] f.k = "arr"    -> {<<f.name, [j \in 1..f.cnt |-> BaseRec(f.sub, j % 5)]>>}
    [] f.k = "arren"  -> {<<f.name, [j \in 1..f.cnt |-> MaxName(f.table)]>>}
    [] f.k = "arru8"  -> {<<f.name, [j \in 1..f.cnt |-> j]>>}
    [] f.k = "vec"    -> {<<f.name, [j \in 1..2 |-> BaseRec(f.sub, j)]>>}
    [] f.k = "vecw32" -> {<<f.name, << <<1, 1>>, <<2, 2>> >> >>}
    [] f.k = "vecip"  -> {<<f.name, << <<1, 2, 3, 4>>, <<5, 6, 7, 8>> >> >>}
    [] f.k = "small"  -> {<<f.name, SmallBase>>}
    [] f.k = "cim"    -> {<<f.name, CimRec("Garage", "Tyres", 0)>>}
    [] f.k = "cars"   -> {<<f.name, <<"XFG", "FBM">> >>}
    [] OTHER -> {}
BasePairs(fs, i, salt) == IF i > Len(fs) THEN {} ELSE BaseField(fs[i], i + salt) \cup BasePairs(fs, i + 1, salt)
BaseRec(fs, salt) == LET ps == BasePairs(fs, 1, salt) IN [n \in {p[1] : p \in ps} |-> (CHOOSE p \in ps : p[1] = n)[2]]
Base(kind) == BaseRec(Layout[kind].fields, 0)

\* mod ids by the shape of their 4 wire bytes: every pattern of alphanumeric (A = 65, z = 122, 7 = 55) / other (0, 154, 95) bytes in
\* the first three positions with a zero or non-zero last byte - except three alphanumerics followed by 0, which is the shape of a
\* built-in car name and therefore not a mod id
ModShapes == {VMod(<<b[1] + 256 * b[2], b[3] + 256 * b[4]>>) :
                b \in {c \in [1..4 -> {0, 55, 65, 95, 122, 154}] :
                          /\ c[4] \in {0, 154}
                          /\ ~(c[1] \in {55, 65, 122} /\ c[2] \in {55, 65, 122} /\ c[3] \in {55, 65, 122} /\ c[4] = 0)
                          /\ ~(c[1] = 0 /\ c[2] = 0 /\ c[3] = 0 /\ c[4] = 0)}}
AllSmall ==
     {SmallRec("None", 0, 0, 0, 0, 0)}
  \cup {SmallRec(k, d, 0, 0, 0, 0) : k \in {"Ssp", "Ssg", "Stp", "Rtp"}, d \in {Dur(0), Dur(10), Dur(12340), DurL(Mul10(<<65535, 65535, 0, 0>>))}}
  \cup {SmallRec("Nli", d, 0, 0, 0, 0) : d \in {Dur(0), Dur(1), DurL(<<65535, 65535, 0, 0>>)}}
  \cup {SmallRec("Vta", 0, a, 0, 0, 0) : a \in DOMAIN VtnActionT}
  \cup {SmallRec("Tms", 0, 0, b, 0, 0) : b \in BOOLEAN}
  \cup {SmallRec("Alc", 0, 0, 0, 0, c) : c \in {<<>>, SetToSeq(DOMAIN PlcCarsT)} \cup {<<n>> : n \in DOMAIN PlcCarsT}}
  \cup {SmallRec("Lcs", 0, 0, 0, SetToSeq({m \in DOMAIN LcsFlagsT : LcsFlagsT[m] \subseteq LcsFlagsT[n]}), 0) : n \in DOMAIN LcsFlagsT}
  \cup {SmallRec("Lcl", 0, 0, 0, SetToSeq({m \in DOMAIN LclFlagsT : LclFlagsT[m] \subseteq LclFlagsT[n]}), 0) : n \in DOMAIN LclFlagsT}
AllCim ==
     {CimRec("Normal", s, 0) : s \in DOMAIN CimNormalT} \cup {CimRec("Garage", s, 0) : s \in DOMAIN CimGarageT}
  \cup {CimRec("ShiftU", s, t) : s \in DOMAIN CimShiftUT, t \in {0, 255}}
  \cup {CimRec(k, "", 0) : k \in {"Options", "HostOptions", "CarSelect", "TrackSelect"}}

\* the sweep domain of a field
FieldDom(f, base) ==
  CASE f.k = "u" /\ f.name = "spclose" -> {0, 1, 4095}
    [] f.k = "u" /\ f.name \in {"h_mass", "h_tres", "textstart"} -> {0, 1}
    [] f.k = "u"      -> IF f.w = 1 THEN (IF Deep THEN 0..255 ELSE {0, 1, 127, 128, 255})
                         ELSE {0, 1, 255, 256, 32768, 65535} \cup (IF Deep THEN {Pow2(e) : e \in 0..15} \cup {Pow2(e) - 1 : e \in 1..16} \cup {257, 4660, 65534} ELSE {})
    [] f.k = "i"      -> IF f.w = 1 THEN (IF Deep THEN -128..127 ELSE {-128, -1, 0, 127})
                         ELSE {-32768, -1, 0, 1, 32767} \cup (IF Deep THEN {-32767, -256, -255, -129, -128, -2, 2, 127, 128, 255, 256, 4660, 32766} ELSE {})
    [] f.k = "w32"    -> {<<0, 0>>, <<1, 0>>, <<65535, 0>>, <<0, 1>>, <<65535, 32767>>, <<0, 32768>>, <<65535, 65535>>}
    [] f.k = "bool"   -> BOOLEAN
    [] f.k = "char"   -> {0, 33, 65, 127, 128, 131, 159, 160, 233, 255}
    [] f.k = "enum"   -> DOMAIN f.table
    [] f.k = "flags"  -> {<<>>, SetToSeq(DOMAIN f.table)} \cup {<<n>> : n \in DOMAIN f.table}
                         \cup (IF Deep THEN {SetToSeq({n, m}) : n \in DOMAIN f.table, m \in DOMAIN f.table}
                                          \cup {SetToSeq(DOMAIN f.table \ {n}) : n \in DOMAIN f.table} ELSE {})
    \* raw text: ASCII of several lengths and text that is not ASCII (2- and 3-byte UTF-8)
    [] f.k = "rstr"   -> {T(n, 97) : n \in {0, 1, f.w - 1}} \cup {<<112, 228, 115, 115>>, <<1087, 1072>>, <<97, 8364>>}
    [] f.k = "str"    -> IF f.name = "version" THEN {<<48, 46, 54, 86, 51>>, <<48, 46, 55, 70, 49, 50>>} ELSE {T(n, 97) : n \in (IF Deep THEN 0..(f.w - 1) ELSE {0, 1, f.w - 1})}
    [] f.k = "vstr"   -> {T(n, 65) : n \in (IF Deep THEN 1..(f.max - 1) ELSE {1, 2, 3, 4, 5, 8, f.max - 3, f.max - 1})}
    [] f.k = "dur"    -> IF f.w = 2 THEN {Dur(0), Dur(f.scale), Dur(65535 * f.scale)}
                         ELSE {Dur(0), Dur(f.scale), DurL(IF f.scale = 10 THEN Mul10(<<65535, 65535, 0, 0>>) ELSE <<65535, 65535, 0, 0>>),
                               DurL(IF f.scale = 10 THEN Mul10(<<0, 32768, 0, 0>>) ELSE <<0, 32768, 0, 0>>)}
    [] f.k = "racelaps" -> {[k |-> "Practice", v |-> 0], [k |-> "Laps", v |-> 1], [k |-> "Laps", v |-> 99], [k |-> "Laps", v |-> 100],
                            [k |-> "Laps", v |-> 110], [k |-> "Laps", v |-> 1000], [k |-> "Hours", v |-> 1], [k |-> "Hours", v |-> 48]}
    [] f.k = "fuel"   -> {[k |-> "No", v |-> 0], [k |-> "Percentage", v |-> 0], [k |-> "Percentage", v |-> 100], [k |-> "Percentage", v |-> 254]}
    [] f.k = "vehicle" -> {VStd(n) : n \in StdNames} \cup {VUnknown, VMod(<<1, 1>>), VMod(<<65535, 65535>>), VMod(<<17969, 256>>)} \cup ModShapes
    [] f.k = "track"  -> Tracks
    [] f.k = "bytes"  -> {<<0, 0, 0, 0>>, <<255, 254, 253, 252>>}
    [] f.k = "nib"    -> 0..15
    [] f.k = "nibhi"  -> 0..15
    [] f.k = "arren"  -> {[j \in 1..f.cnt |-> n] : n \in DOMAIN f.table}
    [] f.k = "arru8"  -> {[j \in 1..f.cnt |-> 0], [j \in 1..f.cnt |-> 255 - j]}
    \* element counts: few, and the protocol maximum (frames of several hundred bytes: size bytes above 63 in compressed mode)
    [] f.k = "vec"    -> {[j \in 1..n |-> BaseRec(f.sub, j)] : n \in (IF Tier = "quick" THEN {0, 1, 3} ELSE 0..8) \cup {f.pmax}}
    \* (identifiers that are zero or spell a built-in car - "XFG" NUL - are identifiers like any other here)
    [] f.k = "vecw32" -> {[j \in 1..n |-> <<j, 7>>] : n \in {0, 1, 3, f.pmax}} \cup {<< <<0, 0>>, <<18008, 71>>, <<13638, 90>>, <<5, 7>> >>}
    [] f.k = "vecip"  -> {[j \in 1..n |-> <<j, 2, 3, 4>>] : n \in {0, 1, 3, f.pmax}}
    [] f.k = "small"  -> AllSmall
    [] f.k = "cim"    -> AllCim
    [] f.k = "cars"   -> {<<>>, SetToSeq(DOMAIN PlcCarsT)} \cup {<<n>> : n \in DOMAIN PlcCarsT}
    [] OTHER -> {}

Named(fs) == {i \in 1..Len(fs) : fs[i].name # ""}
\* one-field-at-a-time sweeps of a record over a field list, as a sequence
SweepSeq(fs, b) ==
  <<b>>
  \o FlattenSeq([i \in 1..Len(fs) |->
        IF fs[i].name = "" THEN <<>>
        ELSE LET d == SetToSeq(FieldDom(fs[i], b)) IN
             [j \in 1..Len(d) |-> [b EXCEPT ![fs[i].name] = d[j]]]
             \o (IF fs[i].k = "nib" THEN [v \in 1..16 |-> [b EXCEPT ![fs[i].lo] = v - 1]] ELSE <<>>)])
\* ... plus one level of nesting: the fields of structs and of the elements of vectors
VectorsFrom(kind, b) ==
  LET fs == Layout[kind].fields IN
  SweepSeq(fs, b)
  \o FlattenSeq([i \in 1..Len(fs) |->
        IF fs[i].k = "struct" THEN LET ss == SweepSeq(fs[i].sub, b[fs[i].name]) IN [j \in 1..Len(ss) |-> [b EXCEPT ![fs[i].name] = ss[j]]]
        ELSE IF fs[i].k = "vec" THEN LET ss == SweepSeq(fs[i].sub, BaseRec(fs[i].sub, 1)) IN [j \in 1..Len(ss) |-> [b EXCEPT ![fs[i].name] = <<ss[j]>>]]
        ELSE <<>>])

\* thorough: the same sweeps around a second base record (other values in every other field)
Vectors(kind) == VectorsFrom(kind, Base(kind)) \o (IF Deep THEN VectorsFrom(kind, BaseRec(Layout[kind].fields, 4)) ELSE <<>>)

\* vectors outside the wire domain: element counts around the protocol maximum and around what fits one frame in
\* either size mode, nibble 16, durations one unit beyond the field.  Only the C03 laws are evaluated on them.
CountsOf(f, hdr) == LET fitC == (1020 - hdr) \div f.ew  fitU == (252 - hdr) \div f.ew IN
                    {n \in {f.pmax, f.pmax + 1, fitU, fitU + 1, fitC, fitC + 1, 255} : n >= 0 /\ n <= 255}
ElemOf(f, j) == CASE f.k = "vec" -> BaseRec(f.sub, j % 7)
                  [] f.k = "vecw32" -> <<j, 9>>
                  [] OTHER -> <<j, 9, 9, 9>>
Hostile(kind) ==
  LET fs == Layout[kind].fields  b == Base(kind)  hdr == 2 + FixedLen(fs, 1) IN
  FlattenSeq([i \in 1..Len(fs) |->
     CASE fs[i].k \in {"vec", "vecw32", "vecip"} ->
             LET cs == SetToSeq(CountsOf(fs[i], hdr)) IN [c \in 1..Len(cs) |-> [b EXCEPT ![fs[i].name] = [j \in 1..cs[c] |-> ElemOf(fs[i], j)]]]
       \* variable texts of exactly the maximum and beyond: cut to the field (IS_MTC keeps its terminator); IS_MSO is built by
       \* its own writer and is covered by the MsoDec events
       [] fs[i].k = "vstr" /\ kind # "Mso" ->
             <<[b EXCEPT ![fs[i].name] = T(fs[i].max, 65)], [b EXCEPT ![fs[i].name] = T(fs[i].max + 1, 66)], [b EXCEPT ![fs[i].name] = T(fs[i].max + 6, 67)]>>
       \* characters that do not fit the one byte of their field (Latin Extended, Cyrillic, CJK, Hangul, the euro sign)
       [] fs[i].k = "char" -> [c \in 1..5 |-> [b EXCEPT ![fs[i].name] = <<283, 1096, 32654, 54620, 8364>>[c]]]
       [] fs[i].k = "dur" -> <<[b EXCEPT ![fs[i].name] = DurL(IF fs[i].w = 2 THEN (IF fs[i].scale = 10 THEN Mul10(<<0, 1, 0, 0>>) ELSE <<0, 1, 0, 0>>)
                                                                         ELSE (IF fs[i].scale = 10 THEN Mul10(<<0, 0, 1, 0>>) ELSE <<0, 0, 1, 0>>))]>>
       [] fs[i].k = "struct" /\ \E g \in 1..Len(fs[i].sub) : fs[i].sub[g].k = "nib" ->
             <<[b EXCEPT ![fs[i].name] = [b[fs[i].name] EXCEPT !["thr"] = 16]], [b EXCEPT ![fs[i].name] = [b[fs[i].name] EXCEPT !["han"] = 16]],
               [b EXCEPT ![fs[i].name] = [b[fs[i].name] EXCEPT !["gearsp"] = 16]]>>
       [] OTHER -> <<>>])

KindSeq == SetToSeq(Kinds)
Line(kind, mode, rec, dom) ==
  LET o == EncodeOutcome(kind, rec, mode) IN
  PrintT(<<"VEC", ToJson([kind |-> kind, mode |-> mode, rec |-> rec, outcome |-> o, domain |-> dom,
                          bytes |-> IF o \in {"ok", "any"} THEN SpecEncode(kind, rec, mode) ELSE <<>>])>>)
\* the laws every frame of the specification itself obeys (C03 on the model)
WellFormedVec(kind, mode, rec) ==
  EncodeOutcome(kind, rec, mode) # "refused" =>
      LET b == SpecEncode(kind, rec, mode) IN
        /\ Len(b) % 4 = 0 /\ Len(b) >= 4 /\ Len(b) <= MaxLenOf(mode)
        /\ b[1] = (IF mode = "C" THEN Len(b) \div 4 ELSE Len(b))
        /\ b[2] = Layout[kind].type /\ b[3] = rec.reqi
        /\ (Layout[kind].size # 0 => Len(b) = Layout[kind].size)

VARIABLES ki, nvec, wellformed, cur, hos
Init == ki = 1 /\ nvec = 0 /\ wellformed = TRUE /\ cur = <<>> /\ hos = <<>>
\* two steps per packet kind: build the kind's vectors (held in a variable so that they are evaluated once), then print every
\* vector in both size modes
Build == /\ ki <= Len(KindSeq) /\ cur = <<>>
         /\ cur' = Vectors(KindSeq[ki]) /\ hos' = Hostile(KindSeq[ki])
         /\ UNCHANGED <<ki, nvec, wellformed>>
Emit == /\ ki <= Len(KindSeq) /\ cur # <<>>
        /\ LET kind == KindSeq[ki] IN
           /\ \A vi \in 1..Len(cur) : Line(kind, "C", cur[vi], "in") /\ Line(kind, "U", cur[vi], "in")
           /\ \A hi \in 1..Len(hos) : Line(kind, "C", hos[hi], "out") /\ Line(kind, "U", hos[hi], "out")
           /\ wellformed' = \A vi \in 1..Len(cur) : WellFormedVec(kind, "C", cur[vi]) /\ WellFormedVec(kind, "U", cur[vi])
           /\ nvec' = nvec + 2 * Len(cur) + 2 * Len(hos)
        /\ ki' = ki + 1 /\ cur' = <<>> /\ hos' = <<>>
Next == Build \/ Emit
Spec == Init /\ [][Next]_<<ki, nvec, wellformed, cur, hos>>
WellFormed == wellformed
=============================================================================
